(* Lang/ReaderFacts.v — facts about the reader model (Lang/Reader.v).  All proofs complete. *)
From Coq Require Import Ascii String List Arith Bool ZArith Lia.
From GV Require Import Lang.Syntax Lang.Parse Lang.ParseFacts Lang.Lexer Lang.Reader.
Import ListNotations.

(* the tree built from a shape has exactly that shape: same nesting, same operators, same negations, the i-th atom at leaf i;
   a subtree that can stand where a mathExpression is required is made of MathExpression nodes under one EMath *)
Inductive mrel (atoms : list atom) : shape -> mexpr -> Prop :=
| MR_leaf n p : mrel atoms (SLeaf false n) (MAtom p (nth n atoms no_atom))
| MR_paren t m p : mrel atoms t m -> mrel atoms (SParen false t) (MParen p m)
| MR_bin o l r ml mr p : mrel atoms l ml -> mrel atoms r mr -> mrel atoms (SNode (BA o) l r) (MBin p o ml mr).

Inductive erel (atoms : list atom) : shape -> expr -> Prop :=
| ER_math t m p : is_math t = true -> mrel atoms t m -> erel atoms t (EMath p m)
| ER_neg n p : erel atoms (SLeaf true n) (EAtom p true (nth n atoms no_atom))
| ER_paren neg t e p : is_math (SParen neg t) = false -> erel atoms t e -> erel atoms (SParen neg t) (EParen p neg e)
| ER_cmp o l r el er p : erel atoms l el -> erel atoms r er -> erel atoms (SNode (BC o) l r) (ECmp p o el er)
| ER_logic o l r el er p : erel atoms l el -> erel atoms r er -> erel atoms (SNode (BL o) l r) (ELogic p o el er).

(* ---- unfolding conv_e ---- *)
Lemma conv_e_eq atoms t ps :
  conv_e atoms t ps =
  if is_math t then
    match conv_m atoms t ps with Some (m, r) => Some (EMath (mpos m) m, r) | None => None end
  else
    match t with
    | SLeaf _ n => match ps with p :: _ :: r => Some (EAtom p true (nth n atoms no_atom), r) | _ => None end
    | SParen neg t' =>
      match ps with
      | p :: r =>
        let r0 := if neg then tl r else r in
        match conv_e atoms t' r0 with Some (e, _ :: r') => Some (EParen p neg e, r') | _ => None end
      | [] => None
      end
    | SNode (BC o) l r =>
      match conv_e atoms l ps with
      | Some (el, _ :: r1) => match conv_e atoms r r1 with Some (er, r2) => Some (ECmp (epos el) o el er, r2) | None => None end
      | _ => None
      end
    | SNode (BL o) l r =>
      match conv_e atoms l ps with
      | Some (el, _ :: r1) => match conv_e atoms r r1 with Some (er, r2) => Some (ELogic (epos el) o el er, r2) | None => None end
      | _ => None
      end
    | SNode (BA _) _ _ => None
    end.
Proof. destruct t; reflexivity. Qed.

Lemma conv_e_math atoms t ps e r :
  is_math t = true -> conv_e atoms t ps = Some (e, r) ->
  exists m, conv_m atoms t ps = Some (m, r) /\ e = EMath (mpos m) m.
Proof.
  intros Em H. rewrite conv_e_eq, Em in H.
  destruct (conv_m atoms t ps) as [[m r0]|]; [|discriminate H].
  injection H as He Hr. subst. exists m. split; reflexivity.
Qed.

Lemma conv_e_math_ok atoms t ps m r :
  is_math t = true -> conv_m atoms t ps = Some (m, r) -> conv_e atoms t ps = Some (EMath (mpos m) m, r).
Proof. intros Em H. rewrite conv_e_eq, Em, H. reflexivity. Qed.

Lemma conv_e_nonmath atoms t ps e r :
  is_math t = false -> conv_e atoms t ps = Some (e, r) ->
  match t with
  | SLeaf neg n => neg = true /\ exists p q, ps = p :: q :: r /\ e = EAtom p true (nth n atoms no_atom)
  | SParen neg t' =>
    exists p ps' e' q, ps = p :: ps' /\ conv_e atoms t' (if neg then tl ps' else ps') = Some (e', q :: r) /\ e = EParen p neg e'
  | SNode o l rr =>
    exists el q r1 er, conv_e atoms l ps = Some (el, q :: r1) /\ conv_e atoms rr r1 = Some (er, r) /\
                       ((exists c, o = BC c /\ e = ECmp (epos el) c el er) \/ (exists c, o = BL c /\ e = ELogic (epos el) c el er))
  end.
Proof.
  intros Em H. rewrite conv_e_eq, Em in H. destruct t as [neg n|neg t'|o l rr].
  - cbn [is_math] in Em. destruct neg; [|discriminate Em]. split; [reflexivity|].
    destruct ps as [|p [|q ps']]; try discriminate H.
    injection H as He Hr. subst. exists p, q. split; reflexivity.
  - destruct ps as [|p ps']; [discriminate H|]. cbv zeta in H.
    destruct (conv_e atoms t' (if neg then tl ps' else ps')) as [[e' [|q r']]|] eqn:E; try discriminate H.
    injection H as He Hr. subst. exists p, ps', e', q. split; [reflexivity|]. split; [exact E|reflexivity].
  - destruct o as [o|o|o]; [discriminate H| |].
    + destruct (conv_e atoms l ps) as [[el [|q r1]]|] eqn:El; try discriminate H.
      destruct (conv_e atoms rr r1) as [[er r2]|] eqn:Er; try discriminate H.
      injection H as He Hr. subst. exists el, q, r1, er. split; [reflexivity|]. split; [exact Er|].
      left. exists o. split; reflexivity.
    + destruct (conv_e atoms l ps) as [[el [|q r1]]|] eqn:El; try discriminate H.
      destruct (conv_e atoms rr r1) as [[er r2]|] eqn:Er; try discriminate H.
      injection H as He Hr. subst. exists el, q, r1, er. split; [reflexivity|]. split; [exact Er|].
      right. exists o. split; reflexivity.
Qed.

Theorem conv_m_shape atoms t ps m r : conv_m atoms t ps = Some (m, r) -> mrel atoms t m.
Proof.
  revert ps m r. induction t as [neg n|neg t' IH|o l IHl rr IHr]; intros ps m r H; cbn [conv_m] in H.
  - destruct neg; [discriminate H|]. destruct ps as [|p ps']; [discriminate H|].
    injection H as Hm Hr. subst. constructor.
  - destruct neg; [discriminate H|]. destruct ps as [|p ps']; [discriminate H|].
    destruct (conv_m atoms t' ps') as [[m' [|q r']]|] eqn:E; try discriminate H.
    injection H as Hm Hr. subst. constructor. exact (IH _ _ _ E).
  - destruct o as [o|o|o]; try discriminate H.
    destruct (conv_m atoms l ps) as [[ml [|q r1]]|] eqn:El; try discriminate H.
    destruct (conv_m atoms rr r1) as [[mr r2]|] eqn:Er; try discriminate H.
    injection H as Hm Hr. subst. constructor; [exact (IHl _ _ _ El)|exact (IHr _ _ _ Er)].
Qed.

Theorem conv_e_shape atoms t ps e r : conv_e atoms t ps = Some (e, r) -> erel atoms t e.
Proof.
  revert ps e r. induction t as [neg n|neg t' IH|o l IHl rr IHr]; intros ps e r H.
  - destruct (is_math (SLeaf neg n)) eqn:Em.
    + destruct (conv_e_math _ _ _ _ _ Em H) as [m [Hm He]]. subst e.
      apply ER_math; [exact Em|exact (conv_m_shape _ _ _ _ _ Hm)].
    + destruct (conv_e_nonmath _ _ _ _ _ Em H) as [Hneg [p [q [Hps He]]]]. subst. constructor.
  - destruct (is_math (SParen neg t')) eqn:Em.
    + destruct (conv_e_math _ _ _ _ _ Em H) as [m [Hm He]]. subst e.
      apply ER_math; [exact Em|exact (conv_m_shape _ _ _ _ _ Hm)].
    + destruct (conv_e_nonmath _ _ _ _ _ Em H) as [p [ps' [e' [q [Hps [He' He]]]]]]. subst.
      apply ER_paren; [exact Em|exact (IH _ _ _ He')].
  - destruct (is_math (SNode o l rr)) eqn:Em.
    + destruct (conv_e_math _ _ _ _ _ Em H) as [m [Hm He]]. subst e.
      apply ER_math; [exact Em|exact (conv_m_shape _ _ _ _ _ Hm)].
    + destruct (conv_e_nonmath _ _ _ _ _ Em H) as [el [q [r1 [er [Hl [Hr [[c [Ho He]]|[c [Ho He]]]]]]]]]; subst.
      * apply ER_cmp; [exact (IHl _ _ _ Hl)|exact (IHr _ _ _ Hr)].
      * apply ER_logic; [exact (IHl _ _ _ Hl)|exact (IHr _ _ _ Hr)].
Qed.

Lemma skipn_S_cons {A} (q : A) : forall n l r, skipn n l = q :: r -> skipn (S n) l = r.
Proof.
  induction n as [|n IH]; intros l r H.
  - cbn [skipn] in H. subst l. reflexivity.
  - destruct l as [|x l]; [discriminate H|]. cbn [skipn] in H. apply IH in H. exact H.
Qed.

Lemma skipn_add' {A} (n : nat) : forall (off : nat) (l : list A), skipn n (skipn off l) = skipn (off + n) l.
Proof.
  induction off as [|off IH]; intros l; [reflexivity|].
  destruct l as [|x l]; cbn [skipn Nat.add].
  - destruct n; reflexivity.
  - apply IH.
Qed.

(* the conversion reads one position per token of the printed shape, and a node's position is that of its first token *)
Theorem conv_m_consumes atoms t ps m r : conv_m atoms t ps = Some (m, r) -> r = skipn (length (print t)) ps.
Proof.
  revert ps m r. induction t as [neg n|neg t' IH|o l IHl rr IHr]; intros ps m r H; cbn [conv_m] in H.
  - destruct neg; [discriminate H|]. destruct ps as [|p ps']; [discriminate H|].
    injection H as Hm Hr. subst. reflexivity.
  - destruct neg; [discriminate H|]. destruct ps as [|p ps']; [discriminate H|].
    destruct (conv_m atoms t' ps') as [[m' [|q r']]|] eqn:E; try discriminate H.
    injection H as Hm Hr. subst. apply IH in E.
    cbn [print notp app length]. rewrite app_length. cbn [length skipn]. rewrite Nat.add_1_r.
    symmetry. apply skipn_S_cons with q. symmetry. exact E.
  - destruct o as [o|o|o]; try discriminate H.
    destruct (conv_m atoms l ps) as [[ml [|q r1]]|] eqn:El; try discriminate H.
    destruct (conv_m atoms rr r1) as [[mr r2]|] eqn:Er; try discriminate H.
    injection H as Hm Hr. subst. apply IHl in El. apply IHr in Er.
    cbn [print]. rewrite app_length. cbn [length].
    symmetry in El. apply skipn_S_cons in El. rewrite <- El in Er. rewrite skipn_add' in Er.
    rewrite Er. f_equal. lia.
Qed.
Theorem conv_e_consumes atoms t ps e r : conv_e atoms t ps = Some (e, r) -> r = skipn (length (print t)) ps.
Proof.
  revert ps e r. induction t as [neg n|neg t' IH|o l IHl rr IHr]; intros ps e r H.
  - destruct (is_math (SLeaf neg n)) eqn:Em.
    + destruct (conv_e_math _ _ _ _ _ Em H) as [m [Hm He]]. exact (conv_m_consumes _ _ _ _ _ Hm).
    + destruct (conv_e_nonmath _ _ _ _ _ Em H) as [Hneg [p [q [Hps He]]]]. subst. reflexivity.
  - destruct (is_math (SParen neg t')) eqn:Em.
    + destruct (conv_e_math _ _ _ _ _ Em H) as [m [Hm He]]. exact (conv_m_consumes _ _ _ _ _ Hm).
    + destruct (conv_e_nonmath _ _ _ _ _ Em H) as [p [ps' [e' [q [Hps [He' He]]]]]]. subst.
      apply IH in He'. symmetry in He'. apply skipn_S_cons in He'.
      destruct neg; cbn [print notp app length]; rewrite app_length; cbn [length skipn]; rewrite Nat.add_1_r.
      * replace (tl ps') with (skipn 1 ps') in He' by (destruct ps'; reflexivity).
        rewrite skipn_add' in He'. cbn [Nat.add] in He'. symmetry. exact He'.
      * symmetry. exact He'.
  - destruct (is_math (SNode o l rr)) eqn:Em.
    + destruct (conv_e_math _ _ _ _ _ Em H) as [m [Hm He]]. exact (conv_m_consumes _ _ _ _ _ Hm).
    + destruct (conv_e_nonmath _ _ _ _ _ Em H) as [el [q [r1 [er [Hl [Hr _]]]]]].
      apply IHl in Hl. apply IHr in Hr.
      cbn [print]. rewrite app_length. cbn [length].
      symmetry in Hl. apply skipn_S_cons in Hl. rewrite <- Hl in Hr. rewrite skipn_add' in Hr.
      rewrite Hr. f_equal. lia.
Qed.
Theorem conv_m_head atoms t ps m r : conv_m atoms t ps = Some (m, r) -> mpos m = nth 0 ps (0, 0).
Proof.
  revert ps m r. induction t as [neg n|neg t' IH|o l IHl rr IHr]; intros ps m r H; cbn [conv_m] in H.
  - destruct neg; [discriminate H|]. destruct ps as [|p ps']; [discriminate H|].
    injection H as Hm Hr. subst. reflexivity.
  - destruct neg; [discriminate H|]. destruct ps as [|p ps']; [discriminate H|].
    destruct (conv_m atoms t' ps') as [[m' [|q r']]|] eqn:E; try discriminate H.
    injection H as Hm Hr. subst. reflexivity.
  - destruct o as [o|o|o]; try discriminate H.
    destruct (conv_m atoms l ps) as [[ml [|q r1]]|] eqn:El; try discriminate H.
    destruct (conv_m atoms rr r1) as [[mr r2]|] eqn:Er; try discriminate H.
    injection H as Hm Hr. subst. cbn [mpos]. exact (IHl _ _ _ El).
Qed.
Theorem conv_e_head atoms t ps e r : conv_e atoms t ps = Some (e, r) -> epos e = nth 0 ps (0, 0).
Proof.
  revert ps e r. induction t as [neg n|neg t' IH|o l IHl rr IHr]; intros ps e r H.
  - destruct (is_math (SLeaf neg n)) eqn:Em.
    + destruct (conv_e_math _ _ _ _ _ Em H) as [m [Hm He]]. subst e. cbn [epos]. exact (conv_m_head _ _ _ _ _ Hm).
    + destruct (conv_e_nonmath _ _ _ _ _ Em H) as [Hneg [p [q [Hps He]]]]. subst. reflexivity.
  - destruct (is_math (SParen neg t')) eqn:Em.
    + destruct (conv_e_math _ _ _ _ _ Em H) as [m [Hm He]]. subst e. cbn [epos]. exact (conv_m_head _ _ _ _ _ Hm).
    + destruct (conv_e_nonmath _ _ _ _ _ Em H) as [p [ps' [e' [q [Hps [He' He]]]]]]. subst. reflexivity.
  - destruct (is_math (SNode o l rr)) eqn:Em.
    + destruct (conv_e_math _ _ _ _ _ Em H) as [m [Hm He]]. subst e. cbn [epos]. exact (conv_m_head _ _ _ _ _ Hm).
    + destruct (conv_e_nonmath _ _ _ _ _ Em H) as [el [q [r1 [er [Hl [Hr [[c [Ho He]]|[c [Ho He]]]]]]]]]; subst;
        cbn [epos]; exact (IHl _ _ _ Hl).
Qed.

Lemma conv_m_total atoms t : forall ps,
  is_math t = true -> sorted t = true -> length (print t) <= length ps -> exists m r, conv_m atoms t ps = Some (m, r).
Proof.
  induction t as [neg n|neg t' IH|o l IHl rr IHr]; intros ps Hm Hs Hl.
  - cbn [is_math] in Hm. destruct neg; [discriminate Hm|].
    cbn in Hl. destruct ps as [|p ps']; [cbn in Hl; lia|].
    cbn [conv_m]. eexists. eexists. reflexivity.
  - cbn [is_math] in Hm. destruct neg; [discriminate Hm|]. cbn [negb andb] in Hm. cbn [sorted] in Hs.
    cbn [print notp app length] in Hl. rewrite app_length in Hl. cbn [length] in Hl.
    destruct ps as [|p ps']; [cbn in Hl; lia|]. cbn [length] in Hl.
    destruct (IH ps' Hm Hs ltac:(lia)) as [m' [r1 E]].
    pose proof (conv_m_consumes _ _ _ _ _ E) as Hc.
    assert (Hlen : length r1 >= 1) by (rewrite Hc, skipn_length; lia).
    destruct r1 as [|q r1]; [cbn in Hlen; lia|].
    cbn [conv_m]. rewrite E. eexists. eexists. reflexivity.
  - destruct o as [o|o|o]; try discriminate Hm.
    cbn [sorted] in Hs.
    apply andb_true_iff in Hs. destruct Hs as [Hs Hsr].
    apply andb_true_iff in Hs. destruct Hs as [Hs Hsl].
    apply andb_true_iff in Hs. destruct Hs as [Hml Hmr].
    cbn [print] in Hl. rewrite app_length in Hl. cbn [length] in Hl.
    destruct (IHl ps Hml Hsl ltac:(lia)) as [ml [r1 El]].
    pose proof (conv_m_consumes _ _ _ _ _ El) as Hc.
    assert (Hlen : length r1 >= S (length (print rr))) by (rewrite Hc, skipn_length; lia).
    destruct r1 as [|q r1]; [cbn in Hlen; lia|]. cbn [length] in Hlen.
    destruct (IHr r1 Hmr Hsr ltac:(lia)) as [mr [r2 Er]].
    cbn [conv_m]. rewrite El, Er. eexists. eexists. reflexivity.
Qed.

(* no spurious failure: a well-sorted shape with enough positions always converts *)
Theorem conv_e_total atoms t ps : sorted t = true -> length (print t) <= length ps -> exists e r, conv_e atoms t ps = Some (e, r).
Proof.
  revert ps. induction t as [neg n|neg t' IH|o l IHl rr IHr]; intros ps Hs Hl.
  - destruct (is_math (SLeaf neg n)) eqn:Em.
    + destruct (conv_m_total atoms _ ps Em Hs Hl) as [m [r E]].
      eexists. eexists. exact (conv_e_math_ok _ _ _ _ _ Em E).
    + rewrite conv_e_eq, Em. cbn [is_math] in Em. destruct neg; [|discriminate Em].
      cbn in Hl. destruct ps as [|p [|q ps']]; cbn [length] in Hl; try lia.
      eexists. eexists. reflexivity.
  - destruct (is_math (SParen neg t')) eqn:Em.
    + destruct (conv_m_total atoms _ ps Em Hs Hl) as [m [r E]].
      eexists. eexists. exact (conv_e_math_ok _ _ _ _ _ Em E).
    + rewrite conv_e_eq, Em. cbn [sorted] in Hs.
      destruct ps as [|p ps']; [destruct neg; cbn in Hl; lia|]. cbv zeta.
      assert (Hl' : length (print t') + 1 <= length (if neg then tl ps' else ps')).
      { destruct neg; cbn [print notp app length] in Hl; rewrite app_length in Hl; cbn [length] in Hl.
        - destruct ps'; cbn [tl length] in *; lia.
        - lia. }
      destruct (IH (if neg then tl ps' else ps') Hs ltac:(lia)) as [e' [r1 E]].
      pose proof (conv_e_consumes _ _ _ _ _ E) as Hc.
      assert (Hlen : length r1 >= 1) by (rewrite Hc, skipn_length; lia).
      destruct r1 as [|q r1]; [cbn in Hlen; lia|].
      rewrite E. eexists. eexists. reflexivity.
  - destruct (is_math (SNode o l rr)) eqn:Em.
    + destruct (conv_m_total atoms _ ps Em Hs Hl) as [m [r E]].
      eexists. eexists. exact (conv_e_math_ok _ _ _ _ _ Em E).
    + rewrite conv_e_eq, Em.
      cbn [print] in Hl. rewrite app_length in Hl. cbn [length] in Hl.
      destruct o as [o|o|o]; [discriminate Em| |]; cbn [sorted] in Hs; apply andb_true_iff in Hs; destruct Hs as [Hsl Hsr].
      * destruct (IHl ps Hsl ltac:(lia)) as [el [r1 El]].
        pose proof (conv_e_consumes _ _ _ _ _ El) as Hc.
        assert (Hlen : length r1 >= S (length (print rr))) by (rewrite Hc, skipn_length; lia).
        destruct r1 as [|q r1]; [cbn in Hlen; lia|]. cbn [length] in Hlen.
        destruct (IHr r1 Hsr ltac:(lia)) as [er [r2 Er]].
        rewrite El, Er. eexists. eexists. reflexivity.
      * destruct (IHl ps Hsl ltac:(lia)) as [el [r1 El]].
        pose proof (conv_e_consumes _ _ _ _ _ El) as Hc.
        assert (Hlen : length r1 >= S (length (print rr))) by (rewrite Hc, skipn_length; lia).
        destruct r1 as [|q r1]; [cbn in Hlen; lia|]. cbn [length] in Hlen.
        destruct (IHr r1 Hsr ltac:(lia)) as [er [r2 Er]].
        rewrite El, Er. eexists. eexists. reflexivity.
Qed.

(* what the expression reader returns is the grammar's reading (Parse.parse) of the operand / operator / bracket skeleton:
   so every theorem of ParseFacts.v (precedence, left associativity, brackets, uniqueness of the reading) is about real texts *)
Theorem raw_expr_is_the_reading (x : rawexpr) (e : expr) (sk : list tok) :
  parse sk = Some (rw_shape x) -> raw_expr x = ROk e -> erel (rw_atoms x) (rw_shape x) e /\ print (rw_shape x) = sk.
Proof.
  intros Hp Hr. split.
  - unfold raw_expr in Hr.
    destruct (conv_e (rw_atoms x) (rw_shape x) (rw_pos x)) as [[e' r]|] eqn:E; [|discriminate Hr].
    injection Hr as He. subst e'. exact (conv_e_shape _ _ _ _ _ E).
  - exact (proj1 (parse_sound _ _ Hp)).
Qed.

(* ---- rule headers ---- *)
Ltac break_in H :=
  repeat (match type of H with
          | context [match ?x with _ => _ end] =>
            lazymatch x with
            | context [match _ with _ => _ end] => fail
            | _ => destruct x eqn:?; try discriminate H
            end
          end; cbv beta match in H).

Lemma read_int_range neg s z : read_int neg s = ROk z -> in_i64 z = true.
Proof.
  unfold read_int. cbv zeta. intros H.
  destruct (in_i64 (if neg then (- int_of_digits s)%Z else int_of_digits s)) eqn:E; [|discriminate H].
  injection H as Hz. subst z. exact E.
Qed.

Lemma read_rule_facts reals ts r rest : read_rule reals ts = ROk (r, rest) ->
  m_name (r_meta r) <> EmptyString /\ in_i64 (m_sal (r_meta r)) = true.
Proof.
  intros H. unfold read_rule in H. unfold bindr in H.
  break_in H.
  all: injection H as Hr Hrest; subst r; cbn [r_meta m_name m_sal]; split;
    [apply String.eqb_neq; assumption | first [reflexivity | eapply read_int_range; eassumption]].
Qed.

Lemma name_in_false n rs : name_in n rs = false -> ~ In n (map (fun r => m_name (r_meta r)) rs).
Proof.
  induction rs as [|r rs IH]; cbn [name_in map In]; intros H.
  - intros [].
  - apply orb_false_iff in H. destruct H as [H1 H2].
    intros [Heq|Hin]; [apply String.eqb_neq in H1; contradiction|exact (IH H2 Hin)].
Qed.

Definition good (acc : list rule) : Prop :=
  NoDup (map (fun r => m_name (r_meta r)) acc) /\
  Forall (fun r => m_name (r_meta r) <> EmptyString /\ in_i64 (m_sal (r_meta r)) = true) acc.

Lemma read_rules_S reals f ts acc :
  read_rules reals (S f) ts acc =
  (dor x <- read_rule reals ts ;;
   let '(r, rest) := x in
   if name_in (m_name (r_meta r)) acc then RErr
   else
     match rest with
     | t :: _ => match tk t with LxKw Kw_rule => read_rules reals f rest (r :: acc) | _ => ROk (rev (r :: acc), rest) end
     | [] => ROk (rev (r :: acc), rest)
     end).
Proof. reflexivity. Qed.

Lemma read_rules_good reals : forall fuel ts acc rs rest,
  read_rules reals fuel ts acc = ROk (rs, rest) -> good acc ->
  exists acc', rs = rev acc' /\ acc' <> [] /\ good acc'.
Proof.
  induction fuel as [|f IH]; intros ts acc rs rest H Hg; [discriminate H|].
  rewrite read_rules_S in H. unfold bindr in H.
  destruct (read_rule reals ts) as [[r rest']| | |] eqn:Er; try discriminate H.
  destruct (name_in (m_name (r_meta r)) acc) eqn:En; [discriminate H|].
  assert (Hg' : good (r :: acc)).
  { destruct Hg as [Hnd Hall]. split.
    - cbn [map]. constructor; [exact (name_in_false _ _ En)|exact Hnd].
    - constructor; [exact (read_rule_facts _ _ _ _ Er)|exact Hall]. }
  assert (Hfin : ROk (rev (r :: acc), rest') = ROk (rs, rest) ->
                 exists acc', rs = rev acc' /\ acc' <> [] /\ good acc').
  { intros Heq. injection Heq as Hrs Hrest. exists (r :: acc).
    split; [symmetry; exact Hrs|]. split; [discriminate|exact Hg']. }
  destruct rest' as [|t0 rest'']; [exact (Hfin H)|].
  destruct (tk t0) as [k|dots nm|si|sr|ss|a|b sb|y]; try exact (Hfin H).
  destruct k; try exact (Hfin H).
  exact (IH _ _ _ _ H Hg').
Qed.

Lemma read_text_good reals s rs : read_text reals s = ROk rs ->
  exists acc', rs = rev acc' /\ acc' <> [] /\ good acc'.
Proof.
  unfold read_text. cbv zeta. intros H.
  destruct (read_rules reals (S (length (lx_toks (lex s)))) (lx_toks (lex s)) []) as [[rs' rest]| | |] eqn:E.
  - assert (Hrs : rs' = rs).
    { destruct rest; destruct (lx_bad (lex s)); destruct (lx_unsup (lex s)); try discriminate H;
        injection H as H; exact H. }
    subst rs'. apply (read_rules_good _ _ _ _ _ _ E). split; constructor.
  - destruct (lx_unsup (lex s)); discriminate H.
  - discriminate H.
  - discriminate H.
Qed.

(* C10: a text that defines the same rule name twice is rejected; an accepted text defines at least one rule, every name non-empty *)
Theorem read_text_names_unique reals s rs : read_text reals s = ROk rs -> NoDup (map (fun r => m_name (r_meta r)) rs).
Proof.
  intros H. destruct (read_text_good _ _ _ H) as [acc' [Hrs [_ [Hnd _]]]]. subst rs.
  rewrite map_rev. apply NoDup_rev. exact Hnd.
Qed.
Theorem read_text_nonempty reals s rs : read_text reals s = ROk rs -> rs <> [] /\ Forall (fun r => m_name (r_meta r) <> EmptyString) rs.
Proof.
  intros H. destruct (read_text_good _ _ _ H) as [acc' [Hrs [Hne [_ Hall]]]]. subst rs. split.
  - destruct acc' as [|a acc']; [congruence|]. cbn [rev]. intros Hnil. apply app_eq_nil in Hnil.
    destruct Hnil as [_ Hnil]. discriminate Hnil.
  - apply Forall_rev. eapply Forall_impl; [|exact Hall]. cbn beta. intros a [Ha _]. exact Ha.
Qed.

(* every integer literal of an accepted rule header is within int64 (strconv.ParseInt) *)
Theorem read_text_saliences_in_range reals s rs : read_text reals s = ROk rs -> Forall (fun r => in_i64 (m_sal (r_meta r)) = true) rs.
Proof.
  intros H. destruct (read_text_good _ _ _ H) as [acc' [Hrs [_ [_ Hall]]]]. subst rs.
  apply Forall_rev. eapply Forall_impl; [|exact Hall]. cbn beta. intros a [_ Ha]. exact Ha.
Qed.

Print Assumptions conv_e_shape.
Print Assumptions conv_e_total.
Print Assumptions raw_expr_is_the_reading.
Print Assumptions read_text_names_unique.
Print Assumptions read_text_nonempty.
Print Assumptions read_text_saliences_in_range.
