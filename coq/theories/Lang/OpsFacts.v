(* Lang/OpsFacts.v — facts about the operators of Lang/Sem.v (arith, compare, logic, finish),
   the integer wrap functions and the metadata constants.  Proofs for Props/C01.v. *)
From Coq Require Import Ascii String List ZArith Bool Lia ZifyBool.
From GV Require Import Lang.Value Lang.Syntax Lang.Store Lang.Sem.
Import ListNotations.
Local Open Scope Z_scope.

Ltac Zify.zify_post_hook ::= Z.div_mod_to_equations.

(* ================= 1. wrap-around ================= *)
Lemma pow2_64 : 2 ^ 64 = 18446744073709551616. Proof. reflexivity. Qed.
Lemma pow2_63 : 2 ^ 63 = 9223372036854775808. Proof. reflexivity. Qed.

Lemma wrap64_unfold : forall z,
  wrap64 z = (z + 9223372036854775808) mod 18446744073709551616 - 9223372036854775808.
Proof. intros. reflexivity. Qed.
Lemma uwrap64_unfold : forall z, uwrap64 z = z mod 18446744073709551616.
Proof. intros. reflexivity. Qed.

Lemma wrap64_range : forall z, - 2 ^ 63 <= wrap64 z < 2 ^ 63.
Proof. intros. rewrite wrap64_unfold, pow2_63. lia. Qed.

Lemma wrap64_congr : forall z, exists k, wrap64 z = z + k * 2 ^ 64.
Proof.
  intros. rewrite wrap64_unfold, pow2_64.
  exists (- ((z + 9223372036854775808) / 18446744073709551616)). lia.
Qed.

Lemma wrap64_id : forall z, - 2 ^ 63 <= z < 2 ^ 63 -> wrap64 z = z.
Proof. intros z. rewrite wrap64_unfold, pow2_63. lia. Qed.

Lemma uwrap64_range : forall z, 0 <= uwrap64 z < 2 ^ 64.
Proof. intros. rewrite uwrap64_unfold, pow2_64. lia. Qed.

Lemma uwrap64_congr : forall z, exists k, uwrap64 z = z + k * 2 ^ 64.
Proof.
  intros. rewrite uwrap64_unfold, pow2_64.
  exists (- (z / 18446744073709551616)). lia.
Qed.

Lemma uwrap64_id : forall z, 0 <= z < 2 ^ 64 -> uwrap64 z = z.
Proof. intros z. rewrite uwrap64_unfold, pow2_64. lia. Qed.

(* two integers congruent modulo 2^64 wrap to the same int64 *)
Lemma wrap64_eq_of_congr : forall a b k, a = b + k * 18446744073709551616 -> wrap64 a = wrap64 b.
Proof.
  intros a b k ->. rewrite !wrap64_unfold. f_equal.
  replace (b + k * 18446744073709551616 + 9223372036854775808)
    with (b + 9223372036854775808 + k * 18446744073709551616) by ring.
  apply Z.mod_add. discriminate.
Qed.

Definition zop (o : aop) : Z -> Z -> Z :=
  match o with OAdd => Z.add | OSub => Z.sub | OMul => Z.mul | ODiv => Z.quot end.

Lemma wrap64_zop_r : forall o x y, o <> ODiv -> wrap64 (zop o x (wrap64 y)) = wrap64 (zop o x y).
Proof.
  intros o x y Ho. destruct (wrap64_congr y) as [k Hk]. rewrite Hk, pow2_64.
  destruct o; cbn [zop]; try congruence.
  - apply wrap64_eq_of_congr with (k := k). ring.
  - apply wrap64_eq_of_congr with (k := - k). ring.
  - apply wrap64_eq_of_congr with (k := x * k). ring.
Qed.

Lemma wrap64_zop_l : forall o x y, o <> ODiv -> wrap64 (zop o (wrap64 x) y) = wrap64 (zop o x y).
Proof.
  intros o x y Ho. destruct (wrap64_congr x) as [k Hk]. rewrite Hk, pow2_64.
  destruct o; cbn [zop]; try congruence.
  - apply wrap64_eq_of_congr with (k := k). ring.
  - apply wrap64_eq_of_congr with (k := k). ring.
  - apply wrap64_eq_of_congr with (k := k * y). ring.
Qed.

Section Ops.
  Variable fo : float_ops.
  Notation value := (value fo).

  Definition is_num (v : value) : bool :=
    match v with VInt _ _ | VUint _ _ | VFloat _ _ => true | _ => false end.

  Lemma is_num_class : forall v : value,
    is_num v = true <-> (class_of v = CInt \/ class_of v = CUint \/ class_of v = CFloat).
  Proof. destruct v; cbn; split; intros H; try tauto; try discriminate; destruct H as [H|[H|H]]; discriminate. Qed.

  Lemma is_num_to_float : forall v : value, is_num v = true <-> exists x, to_float fo v = Some x.
  Proof.
    destruct v; cbn; split; intros H; eauto; try discriminate; destruct H; discriminate.
  Qed.

  Definition fop (o : aop) : fl fo -> fl fo -> fl fo :=
    match o with OAdd => fadd fo | OSub => fsub fo | OMul => fmul fo | ODiv => fdiv fo end.

  (* the division-by-zero test of core.Div *)
  Definition div_zero (b : value) : bool :=
    match b with
    | VInt _ y | VUint _ y => y =? 0
    | VFloat _ f => f_is_zero fo f
    | _ => false
    end.

  (* ================= 2. integer arithmetic wraps ================= *)
  Lemma int_arith_wraps : forall o k1 k2 x y, o <> ODiv ->
    arith fo o (VInt k1 x) (VInt k2 y) = Ok (VInt KI64 (wrap64 (zop o x y))).
  Proof. intros o k1 k2 x y Ho. destruct o; try congruence; reflexivity. Qed.

  Lemma int_uint_arith_wraps : forall o k1 k2 x y, o <> ODiv ->
    arith fo o (VInt k1 x) (VUint k2 y) = Ok (VInt KI64 (wrap64 (zop o x y))).
  Proof.
    intros o k1 k2 x y Ho. rewrite <- (wrap64_zop_r o x y Ho).
    destruct o; try congruence; reflexivity.
  Qed.

  Lemma uint_int_arith_wraps : forall o k1 k2 x y, o <> ODiv ->
    arith fo o (VUint k1 x) (VInt k2 y) = Ok (VInt KI64 (wrap64 (zop o x y))).
  Proof.
    intros o k1 k2 x y Ho. rewrite <- (wrap64_zop_l o x y Ho).
    destruct o; try congruence; reflexivity.
  Qed.

  Lemma uint_arith_wraps : forall o k1 k2 x y, o <> ODiv ->
    arith fo o (VUint k1 x) (VUint k2 y) = Ok (VUint KU64 (uwrap64 (zop o x y))).
  Proof. intros o k1 k2 x y Ho. destruct o; try congruence; reflexivity. Qed.

  (* ================= 3. division ================= *)
  Lemma arith_div_unfold : forall a b : value,
    arith fo ODiv a b =
    if div_zero b then Err []
    else match a, b with
         | VInt _ x, VInt _ y => Ok (VInt KI64 (wrap64 (Z.quot x y)))
         | VInt _ x, VUint _ y => Ok (VInt KI64 (wrap64 (Z.quot x (wrap64 y))))
         | VUint _ x, VInt _ y => Ok (VInt KI64 (wrap64 (Z.quot (wrap64 x) y)))
         | VUint _ x, VUint _ y => Ok (VUint KU64 (Z.div x y))
         | _, _ =>
           match class_of a, class_of b with
           | (CInt | CUint | CFloat), (CInt | CUint | CFloat) =>
             match to_float fo a, to_float fo b with
             | Some x, Some y => Ok (VFloat KF64 (fdiv fo x y))
             | _, _ => Err []
             end
           | _, _ => Err []
           end
         end.
  Proof. reflexivity. Qed.

  Lemma int_division_truncates : forall k1 k2 x y, y <> 0 ->
    arith fo ODiv (VInt k1 x) (VInt k2 y) = Ok (VInt KI64 (wrap64 (Z.quot x y))).
  Proof.
    intros. rewrite arith_div_unfold. cbn [div_zero].
    destruct (Z.eqb_spec y 0); [contradiction | reflexivity].
  Qed.

  Lemma uint_division_floor : forall k1 k2 x y, y <> 0 ->
    arith fo ODiv (VUint k1 x) (VUint k2 y) = Ok (VUint KU64 (Z.div x y)).
  Proof.
    intros. rewrite arith_div_unfold. cbn [div_zero].
    destruct (Z.eqb_spec y 0); [contradiction | reflexivity].
  Qed.

  Lemma division_by_zero_fails : forall a b : value,
    ((exists k, b = VInt k 0) \/ (exists k, b = VUint k 0) \/
     (exists k f, b = VFloat k f /\ f_is_zero fo f = true)) ->
    arith fo ODiv a b = Err [].
  Proof.
    intros a b H. rewrite arith_div_unfold.
    destruct H as [[k ->]|[[k ->]|[k [f [-> Hf]]]]]; cbn [div_zero]; try rewrite Hf; reflexivity.
  Qed.

  Lemma division_by_zero_fails' : forall a b : value, div_zero b = true -> arith fo ODiv a b = Err [].
  Proof. intros a b H. rewrite arith_div_unfold, H. reflexivity. Qed.

  (* ================= 4. float promotion ================= *)
  Lemma float_promotes : forall o (a b : value) x y,
    to_float fo a = Some x -> to_float fo b = Some y ->
    (class_of a = CFloat \/ class_of b = CFloat) ->
    (o = ODiv -> div_zero b = false) ->
    arith fo o a b = Ok (VFloat KF64 (fop o x y)).
  Proof.
    intros o a b x y Ha Hb Hc Hz.
    destruct o.
    1-3: destruct a, b; cbn in Ha, Hb, Hc; try discriminate; destruct Hc; try discriminate;
         inversion Ha; inversion Hb; subst; reflexivity.
    rewrite arith_div_unfold, (Hz eq_refl).
    destruct a, b; cbn in Ha, Hb, Hc; try discriminate; destruct Hc; try discriminate;
      inversion Ha; inversion Hb; subst; reflexivity.
  Qed.

  (* ================= 5. strings ================= *)
  Lemma string_concat : forall x y, arith fo OAdd (VStr x) (VStr y) = Ok (@VStr fo (x ++ y)%string).
  Proof. reflexivity. Qed.

  (* ================= 6. ill-typed operands never give a value ================= *)
  Lemma illtyped_arith_never_a_value : forall o (a b v : value),
    arith fo o a b = Ok v ->
    (is_num a = true /\ is_num b = true) \/ (o = OAdd /\ exists x y, a = VStr x /\ b = VStr y).
  Proof.
    intros o a b v H.
    destruct o.
    2-3: destruct a, b; cbn in H; try discriminate; left; split; reflexivity.
    - destruct a, b; cbn in H; try discriminate; try (left; split; reflexivity).
      right; split; eauto.
    - rewrite arith_div_unfold in H. destruct (div_zero b); [discriminate|].
      destruct a, b; cbn in H; try discriminate; left; split; reflexivity.
  Qed.

  (* every failure of an operator is the bare error (no citation, never a panic) *)
  Lemma arith_err_nil : forall o (a b : value) c, arith fo o a b = Err c -> c = [].
  Proof.
    intros o a b c H. destruct o.
    4: rewrite arith_div_unfold in H; destruct (div_zero b); [congruence|].
    all: destruct a, b; cbn in H; congruence.
  Qed.
  Lemma arith_no_panic : forall o (a b : value), arith fo o a b <> Panic.
  Proof.
    intros o a b H. destruct o.
    4: rewrite arith_div_unfold in H; destruct (div_zero b); [congruence|].
    all: destruct a, b; cbn in H; congruence.
  Qed.

  (* ================= 7, 8. comparisons ================= *)
  Definition int_value (v : value) : option Z :=
    match v with VInt _ z | VUint _ z => Some z | _ => None end.

  Definition zcmp (o : cop) (x y : Z) : bool :=
    match o with
    | CEq => Z.eqb x y | CNe => negb (Z.eqb x y)
    | CLt => Z.ltb x y | CLe => Z.leb x y
    | CGt => Z.ltb y x | CGe => Z.leb y x
    end.

  Lemma zcmp_cmp_of : forall o x y, zcmp o x y = cmp_of Z.eqb Z.ltb Z.leb o x y.
  Proof. destruct o; reflexivity. Qed.

  (* zcmp decides the mathematical relation *)
  Lemma zcmp_spec : forall o x y,
    zcmp o x y = true <->
    match o with
    | CEq => x = y | CNe => x <> y | CLt => x < y | CLe => x <= y | CGt => x > y | CGe => x >= y
    end.
  Proof. intros o x y. destruct o; cbn [zcmp]; lia. Qed.

  Lemma int_compare_exact : forall o (a b : value) x y,
    int_value a = Some x -> int_value b = Some y -> compare fo o a b = Some (zcmp o x y).
  Proof.
    intros o a b x y Ha Hb. rewrite zcmp_cmp_of.
    destruct a, b; cbn in Ha, Hb; try discriminate; inversion Ha; inversion Hb; subst; reflexivity.
  Qed.

  Lemma float_compare : forall o (a b : value) x y,
    to_float fo a = Some x -> to_float fo b = Some y ->
    (class_of a = CFloat \/ class_of b = CFloat) ->
    compare fo o a b = Some (cmp_of (feqb fo) (fltb fo) (fleb fo) o x y).
  Proof.
    intros o a b x y Ha Hb Hc.
    destruct a, b; cbn in Ha, Hb, Hc; try discriminate; destruct Hc; try discriminate;
      inversion Ha; inversion Hb; subst; reflexivity.
  Qed.

  Lemma string_compare : forall o x y,
    compare fo o (VStr x) (VStr y) = Some (cmp_of String.eqb String.ltb String.leb o x y).
  Proof. reflexivity. Qed.

  Lemma bool_compare : forall o x y,
    compare fo o (VBool x) (VBool y) =
    match o with CEq => Some (Bool.eqb x y) | CNe => Some (negb (Bool.eqb x y)) | _ => None end.
  Proof. reflexivity. Qed.

  Lemma illtyped_compare_none : forall o (a b : value) r,
    compare fo o a b = Some r ->
    (is_num a = true /\ is_num b = true) \/
    (exists x y, a = VStr x /\ b = VStr y) \/
    ((o = CEq \/ o = CNe) /\ exists x y, a = VBool x /\ b = VBool y).
  Proof.
    intros o a b r H.
    destruct a, b; cbn in H; try discriminate; try (left; split; reflexivity).
    - right; left; eauto.
    - right; right. split; [destruct o; try discriminate; auto | eauto].
  Qed.

  (* ================= 9. logic, not ================= *)
  Lemma logic_bools : forall o x y,
    logic fo o (VBool x) (VBool y) = Some (match o with LAnd => x && y | LOr => x || y end).
  Proof. reflexivity. Qed.

  Lemma logic_some_inv : forall o (a b : value) r,
    logic fo o a b = Some r -> exists x y, a = VBool x /\ b = VBool y.
  Proof. intros o a b r H. destruct a, b; cbn in H; try discriminate; eauto. Qed.

  Lemma not_bool : forall p b, finish fo p true (VBool b) = Ok (@VBool fo (negb b)).
  Proof. reflexivity. Qed.

  Lemma not_ok_inv : forall p (v r : value), finish fo p true v = Ok r -> exists b, v = VBool b.
  Proof. intros p v r H. destruct v; cbn in H; try discriminate; eauto. Qed.

  Lemma finish_pos_id : forall p (v : value), v <> VNil -> finish fo p false v = Ok v.
  Proof. intros p v H. destruct v; try reflexivity. congruence. Qed.

  Lemma finish_nil : forall p neg, finish fo p neg (@VNil fo) = Err [p].
  Proof. reflexivity. Qed.

  (* ================= 11. metadata ================= *)
  Variable meta : rule_meta.
  Variable real_of : Z -> Z -> fl fo.

  Lemma konst_name : konst fo meta real_of KAtName = VStr (m_name meta).
  Proof. reflexivity. Qed.
  Lemma konst_desc : konst fo meta real_of KAtDesc = VStr (m_desc meta).
  Proof. reflexivity. Qed.
  Lemma konst_sal : konst fo meta real_of KAtSal = VInt KI64 (m_sal meta).
  Proof. reflexivity. Qed.
  Lemma konst_id : konst fo meta real_of KAtId =
    VInt KI64 (match parse_int64 (trim_spaces (m_name meta)) with Some z => z | None => 0 end).
  Proof. reflexivity. Qed.
  Lemma konst_literals : forall z s b,
    konst fo meta real_of (KInt z) = VInt KI64 z /\
    konst fo meta real_of (KStr s) = VStr s /\
    konst fo meta real_of (KBool b) = VBool b.
  Proof. intros. repeat split. Qed.
End Ops.

Arguments is_num {fo}. Arguments int_value {fo}. Arguments div_zero {fo}.

(* ---- parse_int64 ---- *)
Lemma parse_int64_range : forall s z, parse_int64 s = Some z -> - 2 ^ 63 <= z < 2 ^ 63.
Proof.
  intros s z. unfold parse_int64.
  assert (B : forall sgn t,
    match t with
    | EmptyString => None
    | _ => match parse_digits t 0 with
           | Some z0 => let v := sgn * z0 in if (- 2 ^ 63 <=? v) && (v <? 2 ^ 63) then Some v else None
           | None => None end
    end = Some z -> - 2 ^ 63 <= z < 2 ^ 63).
  { intros sgn t H. destruct t; [discriminate|].
    destruct (parse_digits _ 0) as [z0|]; [|discriminate].
    cbv zeta in H.
    destruct ((- 2 ^ 63 <=? sgn * z0) && (sgn * z0 <? 2 ^ 63)) eqn:E; [|discriminate].
    inversion H; subst. rewrite pow2_63 in *. lia. }
  destruct s as [|c t]; [exact (B 1 EmptyString)|].
  destruct c as [[] [] [] [] [] [] [] []];
    first [ exact (B (-1) t) | exact (B 1 t)
          | match goal with |- context [String ?c t] => exact (B 1 (String c t)) end ].
Qed.

Lemma digit_of_range : forall c d, digit_of c = Some d -> 0 <= d <= 9.
Proof.
  intros c d. unfold digit_of.
  destruct ((48 <=? Z.of_nat (nat_of_ascii c)) && (Z.of_nat (nat_of_ascii c) <=? 57)) eqn:E; [|discriminate].
  intros H; inversion H; subst. lia.
Qed.

(* decimal value of a digit string, most significant first *)
Lemma parse_digits_spec : forall s acc z, parse_digits s acc = Some z ->
  z = acc * 10 ^ Z.of_nat (String.length s) + match parse_digits s 0 with Some v => v | None => 0 end
  /\ (0 <= acc -> acc <= z).
Proof.
  induction s as [|c s IH]; intros acc z H.
  - cbn in H. inversion H; subst. cbn. lia.
  - cbn [parse_digits] in *. destruct (digit_of c) as [d|] eqn:D; [|discriminate].
    pose proof (digit_of_range _ _ D) as Hd.
    destruct (IH _ _ H) as [E1 L1].
    replace (0 * 10 + d) with d by lia.
    destruct (parse_digits s d) as [v|] eqn:E2.
    + destruct (IH _ _ E2) as [E3 L3].
      cbn [String.length]. rewrite Nat2Z.inj_succ, Z.pow_succ_r by lia.
      split; [|nia].
      rewrite E1, E3. ring.
    + (* impossible: parse_digits succeeds independently of acc *)
      exfalso. clear - H E2 IH.
      assert (G : forall s a b z, parse_digits s a = Some z -> parse_digits s b <> None).
      { clear. induction s as [|c s IH]; intros a b z H; cbn in *; [discriminate|].
        destruct (digit_of c); [eapply IH; eauto | discriminate]. }
      eapply G; eauto.
Qed.

Example parse_int64_examples :
  parse_int64 (trim_spaces "17") = Some 17 /\
  parse_int64 (trim_spaces " 42 ") = Some 42 /\
  parse_int64 (trim_spaces "-5") = Some (-5) /\
  parse_int64 (trim_spaces "x9") = None /\
  parse_int64 (trim_spaces "9223372036854775807") = Some 9223372036854775807 /\
  parse_int64 (trim_spaces "9223372036854775808") = None /\
  parse_int64 (trim_spaces "-9223372036854775808") = Some (-9223372036854775808) /\
  parse_int64 (trim_spaces "") = None /\
  parse_int64 (trim_spaces "-") = None.
Proof. vm_compute. repeat split. Qed.

Example konst_id_examples :
  forall real_of,
  konst primfo (mkMeta " 42 " "" 0) real_of KAtId = VInt KI64 42 /\
  konst primfo (mkMeta "x9" "" 0) real_of KAtId = VInt KI64 0 /\
  konst primfo (mkMeta "9223372036854775808" "" 0) real_of KAtId = VInt KI64 0.
Proof. intros. repeat split; reflexivity. Qed.

(* ================= 12. non-vacuity ================= *)
(* stated for every float_ops record (integers never touch it), hence in particular for the
   IEEE binary64 instance [primfo]; the instances are below *)
Example ex_add_wraps : forall fo,
  arith fo OAdd (VInt KI64 (2 ^ 63 - 1)) (VInt KI64 1) = Ok (VInt KI64 (- 2 ^ 63)).
Proof. reflexivity. Qed.

Example ex_compare_exact_above_2_53 : forall fo,
  compare fo CEq (VInt KI64 (2 ^ 53 + 1)) (VInt KI64 (2 ^ 53)) = Some false.
Proof. reflexivity. Qed.

Example ex_div_truncates : forall fo,
  arith fo ODiv (VInt KI64 (-7)) (VInt KI64 2) = Ok (VInt KI64 (-3)).
Proof. reflexivity. Qed.

Example ex_mixed_compare : forall fo,
  compare fo CLt (VInt KI64 (-1)) (VUint KU64 (2 ^ 64 - 1)) = Some true.
Proof. reflexivity. Qed.

Example ex_uint_wraps : forall fo,
  arith fo OSub (VUint KU64 0) (VUint KU64 1) = Ok (VUint KU64 (2 ^ 64 - 1)).
Proof. reflexivity. Qed.

Example ex_primfo :
  arith primfo OAdd (VInt KI64 (2 ^ 63 - 1)) (VInt KI64 1) = Ok (VInt KI64 (- 2 ^ 63)) /\
  compare primfo CEq (VInt KI64 (2 ^ 53 + 1)) (VInt KI64 (2 ^ 53)) = Some false /\
  arith primfo ODiv (VInt KI64 (-7)) (VInt KI64 2) = Ok (VInt KI64 (-3)).
Proof. repeat split. Qed.
