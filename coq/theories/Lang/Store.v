(* Lang/Store.v — the data context: injected host objects and rule locals, transcribed from
   context/data_context.go, internal/core/execute.go and internal/base/map_var.go over an
   assumed table of reflect primitives (which receiver kinds make a primitive panic).
   Definitions only.

   Modelled domain (DESIGN.md appendix D): scalars of the 10 integer kinds, 2 float kinds,
   string, bool; pointers to scalars; structs (by pointer or by value) with scalar fields,
   nested structs, map / slice / array fields; maps, slices, arrays injected directly or by
   pointer; functions and methods with scalar parameters.  Locals hold scalars only. *)
From Coq Require Import Ascii String List ZArith Bool.
From GV Require Import Lang.Value Lang.Syntax.
Import ListNotations.
Local Open Scope Z_scope.

Section Store.
  Variable fo : float_ops.
  Notation value := (value fo).

  (* three-way outcome of every evaluation step *)
  Inductive res (A : Type) :=
  | Ok (a : A)
  | Err (cites : list pos)      (* error value; positions cited by the message, outermost first *)
  | Panic.                      (* a Go panic travelling up the stack *)
  Arguments Ok {A}. Arguments Err {A}. Arguments Panic {A}.

  Definition bind {A B} (r : res A) (f : A -> res B) : res B :=
    match r with Ok a => f a | Err c => Err c | Panic => Panic end.

  (* add a citation in front (fmt.Sprintf("line %d, column %d, code: %s, %+v", ..., err)) *)
  Definition wrap {A} (p : pos) (r : res A) : res A :=
    match r with Err c => Err (p :: c) | x => x end.
  (* a deferred recover: the panic becomes an error citing p *)
  Definition recover {A} (p : pos) (r : res A) : res A :=
    match r with Panic => Err [p] | x => x end.

  Inductive sty := TI (k : ikind) | TU (k : ukind) | TF (k : fkind) | TS | TB.

  Definition sty_eqb (a b : sty) : bool :=
    match a, b with
    | TI x, TI y => match x, y with KI, KI | KI8, KI8 | KI16, KI16 | KI32, KI32 | KI64, KI64 => true | _, _ => false end
    | TU x, TU y => match x, y with KU, KU | KU8, KU8 | KU16, KU16 | KU32, KU32 | KU64, KU64 => true | _, _ => false end
    | TF x, TF y => match x, y with KF32, KF32 | KF64, KF64 => true | _, _ => false end
    | TS, TS | TB, TB => true
    | _, _ => false
    end.

  (* the exact Go kind of a scalar value, None for VNil / VOther *)
  Definition sty_of (v : value) : option sty :=
    match v with
    | VInt k _ => Some (TI k) | VUint k _ => Some (TU k) | VFloat k _ => Some (TF k)
    | VStr _ => Some TS | VBool _ => Some TB | _ => None
    end.

  Definition zero_of (t : sty) : value :=
    match t with
    | TI k => VInt k 0 | TU k => VUint k 0 | TF k => VFloat k (f_of_Z fo 0) | TS => VStr "" | TB => VBool false
    end.

  (* what a catalogue function does with the arguments it receives *)
  Inductive fbeh := BNone (* no result *) | BEcho (i : nat) (* returns its i-th argument *) | BPanic | BConst (v : value).
  Record fdesc := mkF { f_id : string; f_params : list sty; f_beh : fbeh }.

  Inductive hobj :=
  | HVal (v : value)                                   (* scalar injected by value *)
  | HPtr (t : sty) (v : value)                         (* pointer to a scalar *)
  | HStruct (byptr : bool) (fields : hfields) (methods : list fdesc)
  | HMap (byptr : bool) (kt et : sty) (entries : list (value * value))
  | HSeq (byptr : bool) (isarray : bool) (et : sty) (elems : list value)
  | HFunc (f : fdesc)
  with hfields := FNil | FCons (n : string) (o : hobj) (rest : hfields).

  Record env := mkEnv {
    e_inj : list (string * hobj);          (* DataContext.base *)
    e_loc : list (string * value);         (* the Vars map of this rule execution *)
    e_trace : list (string * list value)   (* calls received by injected functions, in order *)
  }.

  (* ---------- helpers ---------- *)
  Fixpoint alookup {V} (n : string) (m : list (string * V)) : option V :=
    match m with [] => None | (k, v) :: m' => if String.eqb k n then Some v else alookup n m' end.
  Fixpoint aset {V} (n : string) (v : V) (m : list (string * V)) : list (string * V) :=
    match m with
    | [] => [(n, v)]
    | (k, w) :: m' => if String.eqb k n then (k, v) :: m' else (k, w) :: aset n v m'
    end.
  Fixpoint flookup (n : string) (f : hfields) : option hobj :=
    match f with FNil => None | FCons k o r => if String.eqb k n then Some o else flookup n r end.
  Fixpoint fset (n : string) (o : hobj) (f : hfields) : hfields :=
    match f with FNil => FNil | FCons k x r => if String.eqb k n then FCons k o r else FCons k x (fset n o r) end.

  (* split "a.b.c" at dots *)
  Fixpoint split_dots (s : string) (cur : string) : list string :=
    match s with
    | EmptyString => [cur]
    | String c s' => if Ascii.eqb c "."%char then cur :: split_dots s' "" else split_dots s' (cur ++ String c "")
    end.
  Definition path_of (s : string) : list string := split_dots s "".

  (* the reflect.Value a name denotes, as far as the DSL can use it *)
  Definition value_of_obj (o : hobj) : value :=
    match o with
    | HVal v => v
    | HPtr _ _ => VOther "ptr"
    | HStruct p _ _ => VOther (if p then "ptr" else "struct")
    | HMap p _ _ _ => VOther (if p then "ptr" else "map")
    | HSeq p a _ _ => VOther (if p then "ptr" else if a then "array" else "slice")
    | HFunc _ => VOther "func"
    end.

  (* core.GetStructAttributeValue: FieldByName on (the target of) a struct; panics on other kinds;
     a missing field is the invalid Value with a nil error *)
  Definition get_field (o : hobj) (f : string) : res (option hobj) :=
    match o with
    | HStruct _ fs _ => Ok (flookup f fs)
    | HPtr _ _ | HMap true _ _ _ | HSeq true _ _ _ => Panic  (* Elem().FieldByName on a non-struct *)
    | _ => Panic                                             (* FieldByName on a non-struct *)
    end.

  (* resolve a (possibly dotted) name to a host object: injected table first, then locals *)
  Inductive resolved := RObj (o : hobj) | RLocal (v : value) | RMissingField.
  Definition resolve (e : env) (name : string) : res resolved :=
    match path_of name with
    | [a] =>
      match alookup a (e_inj e) with
      | Some o => Ok (RObj o)
      | None => match alookup a (e_loc e) with Some v => Ok (RLocal v) | None => Err [] end
      end
    | [a; b] =>
      match alookup a (e_inj e) with
      | Some o => bind (get_field o b) (fun fo' => Ok (match fo' with Some x => RObj x | None => RMissingField end))
      | None => match alookup a (e_loc e) with
                | Some _ => Panic         (* FieldByName on a scalar local *)
                | None => Err [] end
      end
    | [a; b; c] =>
      match alookup a (e_inj e) with
      | Some o =>
        bind (get_field o b) (fun ob =>
          match ob with
          | None => Panic                  (* FieldByName on the invalid Value *)
          | Some ob' => bind (get_field ob' c) (fun oc => Ok (match oc with Some x => RObj x | None => RMissingField end))
          end)
      | None => match alookup a (e_loc e) with Some _ => Panic | None => Err [] end
      end
    | _ => Err []
    end.

  (* DataContext.GetValue *)
  Definition get_value (e : env) (name : string) : res value :=
    bind (resolve e name) (fun r =>
      Ok (match r with RObj o => value_of_obj o | RLocal v => v | RMissingField => VNil end)).

  (* ---------- numeric conversions (reflect Set* / Go conversions) ---------- *)
  Definition conv_int (k : ikind) (z : Z) : value := VInt k (swrap (ibits k) z).
  Definition conv_uint (k : ukind) (z : Z) : value := VUint k (uwrap (ubits k) z).

  (* cross-class conversion used for struct fields and pointer scalars: reflect.SetInt /
     SetUint / SetFloat after int64(..)/uint64(..)/float64(..).  None = the Go code panics
     or the float is not finite (implementation-defined conversion: outside the guard). *)
  Definition set_conv (t : sty) (v : value) : res value :=
    match t, v with
    | TI k, VInt _ z => Ok (conv_int k z)
    | TI k, VUint _ z => Ok (conv_int k z)
    | TI k, VFloat _ f => match f_trunc fo f with Some z => Ok (conv_int k z) | None => Ok (conv_int k 0) end
    | TU k, VInt _ z => if 0 <=? z then Ok (conv_uint k z) else Panic     (* value.Uint() on an int kind *)
    | TU k, VUint _ z => Ok (conv_uint k z)
    | TU k, VFloat _ f => match f_trunc fo f with
                          | Some z => if 0 <=? z then Ok (conv_uint k z) else Panic
                          | None => Panic end
    | TF k, VInt _ z => Ok (VFloat k (f_of_Z fo z))
    | TF k, VUint _ z => Ok (VFloat k (f_of_Z fo z))
    | TF k, VFloat _ f => Ok (VFloat k f)            (* float32 targets: exact only for representable values (guard) *)
    | TS, VStr s => Ok (VStr s)
    | TB, VBool b => Ok (VBool b)
    | _, _ => Panic                                  (* value.Int()/Uint()/Float()/Bool() on the wrong kind;
                                                        (string targets silently store "<T Value>": outside the model) *)
    end.

  (* core.SetSingleValue on a pointer-injected scalar *)
  Definition set_single (t : sty) (v : value) : res value :=
    match sty_of v with
    | None => Err []
    | Some tv =>
      if sty_eqb t tv then Ok v
      else match t, v with
           | TI k, VInt _ z | TI k, VUint _ z => Ok (conv_int k z)
           | TI k, VFloat _ f => match f_trunc fo f with Some z => Ok (conv_int k z) | None => Ok (conv_int k 0) end
           | TU k, VInt _ z => if 0 <=? z then Ok (conv_uint k z) else Err []
           | TU k, VFloat _ f => match f_trunc fo f with Some z => if 0 <=? z then Ok (conv_uint k z) else Err [] | None => Err [] end
           | TU k, VUint _ z => Ok (conv_uint k z)
           | TF k, VInt _ z | TF k, VUint _ z => Ok (VFloat k (f_of_Z fo z))
           | TF k, VFloat _ f => Ok (VFloat k f)
           | _, _ => Err []
           end
    end.

  (* core.GetWantedValue: within-class width coercion for container keys and elements *)
  Definition wanted (t : sty) (v : value) : res value :=
    match sty_of v with
    | None => Ok v
    | Some tv =>
      if sty_eqb t tv then Ok v
      else match t with
           | TI KI64 | TU KU64 | TF KF64 | TS | TB => Ok v            (* returned unchanged *)
           | TI k => match v with VInt _ z => Ok (conv_int k z) | _ => Panic end
           | TU k => match v with VUint _ z => Ok (conv_uint k z) | _ => Panic end
           | TF k => match v with VFloat _ f => Ok (VFloat k f) | _ => Panic end
           end
    end.

  (* reflect requires the exact type for MapIndex / SetMapIndex / Set *)
  Definition assignable (t : sty) (v : value) : bool :=
    match sty_of v with Some tv => sty_eqb t tv | None => false end.

  Definition value_eqb (a b : value) : bool :=
    match a, b with
    | VInt k1 x, VInt k2 y => sty_eqb (TI k1) (TI k2) && (x =? y)
    | VUint k1 x, VUint k2 y => sty_eqb (TU k1) (TU k2) && (x =? y)
    | VFloat k1 x, VFloat k2 y => sty_eqb (TF k1) (TF k2) && feqb fo x y
    | VStr x, VStr y => String.eqb x y
    | VBool x, VBool y => Bool.eqb x y
    | VNil, VNil => true
    | VOther x, VOther y => String.eqb x y
    | _, _ => false
    end.

  Fixpoint map_get (k : value) (m : list (value * value)) : option value :=
    match m with [] => None | (k', v) :: m' => if value_eqb k k' then Some v else map_get k m' end.
  Fixpoint map_set (k v : value) (m : list (value * value)) : list (value * value) :=
    match m with
    | [] => [(k, v)]
    | (k', w) :: m' => if value_eqb k k' then (k', v) :: m' else (k', w) :: map_set k v m'
    end.
  Fixpoint list_set {A} (i : nat) (x : A) (l : list A) : list A :=
    match l, i with
    | [], _ => []
    | _ :: t, O => x :: t
    | h :: t, S i' => h :: list_set i' x t
    end.

  (* key of a MapVar as a value *)
  Definition key_value (e : env) (k : mkey) : res value :=
    match k with
    | MKInt z => Ok (VInt KI64 z)
    | MKStr s => Ok (VStr s)
    | MKVar n => get_value e n
    end.

  (* MapVar.Evaluate (without the position wrapping, done by the caller) *)
  Definition mapvar_get (e : env) (m : mapvar) : res value :=
    bind (wrap (mv_pos m) (resolve e (mv_name m))) (fun r =>
      match r with
      | RObj (HMap _ kt et entries) =>
        match mv_key m with
        | MKStr s => if sty_eqb kt TS then Ok (match map_get (VStr s) entries with Some v => v | None => zero_of et end) else Panic
        | k => bind (wrap (mv_pos m) (key_value e k)) (fun kv =>
                 bind (wrap (mv_pos m) (wanted kt kv)) (fun wk =>
                   if assignable kt wk then Ok (match map_get wk entries with Some v => v | None => zero_of et end)
                   else Panic))
        end
      | RObj (HSeq _ _ et elems) =>
        match mv_key m with
        | MKStr _ => Err [mv_pos m]
        | MKInt z => if z <? 0 then Err [mv_pos m]
                     else match nth_error elems (Z.to_nat z) with Some v => Ok v | None => Panic end
        | MKVar n => bind (wrap (mv_pos m) (get_value e n)) (fun kv =>
                       match kv with
                       | VInt _ z => if z <? 0 then Panic else match nth_error elems (Z.to_nat z) with Some v => Ok v | None => Panic end
                       | _ => Panic      (* wantedKey.Int() on a non-int kind *)
                       end)
        end
      | RObj (HPtr _ _) | RObj (HStruct true _ _) => Err [mv_pos m]   (* pointer to something that is no container *)
      | _ => Err [mv_pos m]
      end).

  (* replace the object a (dotted) name denotes *)
  Definition update_obj (e : env) (name : string) (o' : hobj) : env :=
    match path_of name with
    | [a] => mkEnv (aset a o' (e_inj e)) (e_loc e) (e_trace e)
    | [a; b] =>
      match alookup a (e_inj e) with
      | Some (HStruct p fs ms) => mkEnv (aset a (HStruct p (fset b o' fs) ms) (e_inj e)) (e_loc e) (e_trace e)
      | _ => e
      end
    | [a; b; c] =>
      match alookup a (e_inj e) with
      | Some (HStruct p fs ms) =>
        match flookup b fs with
        | Some (HStruct p2 fs2 ms2) =>
          mkEnv (aset a (HStruct p (fset b (HStruct p2 (fset c o' fs2) ms2) fs) ms) (e_inj e)) (e_loc e) (e_trace e)
        | _ => e
        end
      | _ => e
      end
    | _ => e
    end.

  (* DataContext.SetMapVarValue *)
  Definition mapvar_set (e : env) (m : mapvar) (v : value) : res env :=
    bind (resolve e (mv_name m)) (fun r =>
      match r with
      | RObj (HMap p kt et entries) =>
        let store wk :=
          bind (wanted et v) (fun wv =>
            if assignable kt wk && assignable et wv
            then Ok (update_obj e (mv_name m) (HMap p kt et (map_set wk wv entries)))
            else Panic) in
        match mv_key m with
        | MKStr s => if sty_eqb kt TS then store (VStr s) else bind (wanted et v) (fun _ => Panic)
        | k => bind (key_value e k) (fun kv => bind (wanted kt kv) store)
        end
      | RObj (HSeq p isarr et elems) =>
        let store (z : Z) :=
          bind (wanted et v) (fun wv =>
            if z <? 0 then Panic
            else if (Z.of_nat (length elems) <=? z) then Panic
            else if negb (assignable et wv) then Panic
            else if (isarr && negb p)%bool then Panic          (* array by value: unaddressable *)
            else Ok (update_obj e (mv_name m) (HSeq p isarr et (list_set (Z.to_nat z) wv elems)))) in
        match mv_key m with
        | MKStr _ => Err []
        | MKInt z => if z <? 0 then Err [] else store z
        | MKVar n => bind (get_value e n) (fun kv =>
                       match kv with VInt _ z => store z | _ => bind (wanted et v) (fun _ => Panic) end)
        end
      | RObj (HVal _) | RObj (HFunc _) | RLocal _ | RMissingField => Panic   (* Type().Elem() of a non-container *)
      | RObj (HPtr _ _) => Panic
      | RObj (HStruct _ _ _) => Panic
      end).

  (* core.SetAttributeValue on the field [f] of object [o] *)
  Definition set_field (o : hobj) (f : string) (v : value) : res hobj :=
    match o with
    | HStruct p fs ms =>
      match flookup f fs with
      | None => Err []                                   (* struct has no this field *)
      | Some fo' =>
        if negb p then Err []                            (* not addressable: must be assignable *)
        else match sty_of v with
             | None => Panic                             (* value.Type() of the invalid Value *)
             | Some _ =>
               match fo' with
               | HVal cur =>
                 match sty_of cur with
                 | Some t => bind (set_conv t v) (fun nv => Ok (HStruct p (fset f (HVal nv) fs) ms))
                 | None => Panic
                 end
               | _ => Panic                              (* field.Set(value) with a scalar: type mismatch *)
               end
             end
      end
    | _ => Err []                                        (* no such field *)
    end.

  (* DataContext.SetValue *)
  Definition set_value (e : env) (name : string) (v : value) : res env :=
    match path_of name with
    | [a] =>
      match alookup a (e_inj e) with
      | Some (HPtr t cur) => bind (set_single t v) (fun nv => Ok (mkEnv (aset a (HPtr t nv) (e_inj e)) (e_loc e) (e_trace e)))
      | Some (HVal _) | Some (HFunc _) | Some (HStruct false _ _) | Some (HMap false _ _ _) | Some (HSeq false _ _ _) => Err []   (* unassignable *)
      | Some _ => Err []                                 (* pointer to struct / container: kinds differ *)
      | None => Ok (mkEnv (e_inj e) (aset a v (e_loc e)) (e_trace e))
      end
    | [a; b] =>
      match alookup a (e_inj e) with
      | Some o => bind (set_field o b v) (fun o' => Ok (mkEnv (aset a o' (e_inj e)) (e_loc e) (e_trace e)))
      | None => Err []
      end
    | [a; b; c] =>
      match alookup a (e_inj e) with
      | Some o =>
        bind (get_field o b) (fun ob =>
          match ob with
          | None => Panic                                (* Type() of the invalid Value *)
          | Some (HStruct p2 fs2 ms2) =>
            (* a nested struct by value inside a pointer struct is addressable; a nested pointer is settable *)
            let settable := match o with HStruct true _ _ => true | _ => p2 end in
            bind (set_field (HStruct settable fs2 ms2) c v) (fun ob' =>
              match ob', o with
              | HStruct _ fs2' _, HStruct p fs ms =>
                Ok (mkEnv (aset a (HStruct p (fset b (HStruct p2 fs2' ms2) fs) ms) (e_inj e)) (e_loc e) (e_trace e))
              | _, _ => Panic
              end)
          | Some _ => Err []
          end)
      | None => Err []
      end
    | _ => Err []
    end.

  (* ---------- calls ---------- *)
  (* core.ParamsTypeChange: positional conversion to the declared numeric parameter kinds *)
  Definition num_conv (t : sty) (v : value) : res value :=
    match t with
    | TI k => match v with
              | VInt _ z | VUint _ z => Ok (conv_int k z)
              | VFloat _ f => match f_trunc fo f with Some z => Ok (conv_int k z) | None => Ok (conv_int k 0) end
              | _ => Panic end                       (* "it is not number type" *)
    | TU k => match v with
              | VInt _ z | VUint _ z => Ok (conv_uint k z)
              | VFloat _ f => match f_trunc fo f with Some z => Ok (conv_uint k z) | None => Ok (conv_uint k 0) end
              | _ => Panic end
    | TF k => match v with
              | VInt _ z | VUint _ z => Ok (VFloat k (f_of_Z fo z))
              | VFloat _ f => Ok (VFloat k f)
              | _ => Panic end
    | _ => Ok v
    end.

  Fixpoint convert_args (ps : list sty) (vs : list value) : res (list value) :=
    match ps, vs with
    | [], _ => Ok vs                                   (* extra arguments are left alone (Call then panics) *)
    | _ :: _, [] => Panic                              (* params[i]: index out of range *)
    | t :: ps', v :: vs' => bind (num_conv t v) (fun v' => bind (convert_args ps' vs') (fun r => Ok (v' :: r)))
    end.

  (* reflect.Value.Call *)
  Definition invoke (e : env) (f : fdesc) (vs : list value) : res (value * env) :=
    bind (convert_args (f_params f) vs) (fun args =>
      if negb (Nat.eqb (length args) (length (f_params f))) then Panic
      else if negb (forallb (fun tv => assignable (fst tv) (snd tv)) (combine (f_params f) args)) then Panic
      else
        let e' := mkEnv (e_inj e) (e_loc e) (e_trace e ++ [(f_id f, args)]) in
        match f_beh f with
        | BNone => Ok (VNil, e')
        | BEcho i => Ok (nth i args VNil, e')
        | BPanic => Panic
        | BConst v => Ok (v, e')
        end).

  Definition find_method (ms : list fdesc) (n : string) : option fdesc :=
    find (fun f => String.eqb (f_id f) n) ms.

  (* DataContext.ExecFunc / ExecMethod / ExecThreeLevel *)
  Definition exec_call (e : env) (k : ckind) (name : string) (vs : list value) : res (value * env) :=
    match k, path_of name with
    | CFunc, [f] =>
      match alookup f (e_inj e) with
      | Some (HFunc fd) => invoke e fd vs
      | Some _ => Panic                               (* Type().NumIn() / Call on a non-func *)
      | None => match alookup f (e_loc e) with Some _ => Panic | None => Err [] end
      end
    | CMethod, [a; mname] =>
      match alookup a (e_inj e) with
      | Some (HStruct _ _ ms) => match find_method ms mname with Some fd => invoke e fd vs | None => Err [] end
      | Some _ => Err []                              (* MethodByName finds nothing *)
      | None => match alookup a (e_loc e) with Some _ => Err [] | None => Err [] end
      end
    | CThree, [a; b; mname] =>
      match alookup a (e_inj e) with
      | Some o =>
        bind (get_field o b) (fun ob =>
          match ob with
          | Some (HStruct _ _ ms) => match find_method ms mname with Some fd => invoke e fd vs | None => Err [] end
          | Some _ => Err []
          | None => Panic                             (* MethodByName on the invalid Value *)
          end)
      | None => match alookup a (e_loc e) with Some _ => Panic | None => Err [] end
      end
    | _, _ => Err []
    end.
End Store.

Arguments Ok {A}. Arguments Err {A}. Arguments Panic {A}.
Arguments bind {A B}. Arguments wrap {A}. Arguments recover {A}.
Arguments RObj {fo}. Arguments RLocal {fo}. Arguments RMissingField {fo}.
Arguments HVal {fo}. Arguments HPtr {fo}. Arguments HStruct {fo}. Arguments HMap {fo}.
Arguments HSeq {fo}. Arguments HFunc {fo}. Arguments FNil {fo}. Arguments FCons {fo}.
Arguments BNone {fo}. Arguments BEcho {fo}. Arguments BPanic {fo}. Arguments BConst {fo}.
Arguments mkF {fo}. Arguments mkEnv {fo}.
Arguments e_inj {fo}. Arguments e_loc {fo}. Arguments e_trace {fo}.
Arguments f_id {fo}. Arguments f_params {fo}. Arguments f_beh {fo}.
