(* Lang/ReaderPos.v — the reader model (Lang/Reader.v) and the text: every expression it returns is Parse.parse's reading
   of a skeleton, and every position stored in the trees it returns is the position of a token of the text.
   All proofs complete. *)
From Coq Require Import Ascii String List Arith Bool ZArith Lia.
From GV Require Import Lang.Syntax Lang.Parse Lang.ParseFacts Lang.Lexer Lang.LexerFacts Lang.Reader Lang.ReaderFacts Lang.SemFacts.
Import ListNotations.

(* ---- unfolding lemmas for the fuel-indexed readers ---- *)
Lemma scan_S reals f ts depth acc atoms :
  scan reals (S f) ts depth acc atoms =
  match ts with
  | t :: r =>
    match tk t with
    | LxSym Y_not => scan reals f r depth ((TNot, pt_pos t) :: acc) atoms
    | LxSym Y_lpar => scan reals f r (S depth) ((TL, pt_pos t) :: acc) atoms
    | _ =>
      dor x <- read_atom reals f ts ;;
      let '(a, p, rest) := x in
      after reals f rest depth ((TAtom (length atoms), p) :: acc) (atoms ++ [a])
    end
  | [] => RErr
  end.
Proof. reflexivity. Qed.

Lemma after_S reals f ts depth acc atoms :
  after reals (S f) ts depth acc atoms =
  let finish :=
    let sk := rev acc in
    match parse (map fst sk) with
    | Some sh => ROk (mkRaw sh atoms (map snd sk), ts)
    | None => RErr
    end in
  match ts with
  | t :: r =>
    match tk t with
    | LxSym Y_rpar => match depth with S d => after reals f r d ((TR, pt_pos t) :: acc) atoms | 0 => finish end
    | LxSym y => match bop_of y with Some o => scan reals f r depth ((TOp o, pt_pos t) :: acc) atoms | None => finish end
    | _ => finish
    end
  | [] => finish
  end.
Proof. reflexivity. Qed.

Definition parsed (x : rawexpr) : Prop :=
  exists sk, parse sk = Some (rw_shape x) /\ length (rw_pos x) = length sk.

Lemma scan_after_parsed reals : forall f,
  (forall ts depth acc atoms x rest, scan reals f ts depth acc atoms = ROk (x, rest) -> parsed x) /\
  (forall ts depth acc atoms x rest, after reals f ts depth acc atoms = ROk (x, rest) -> parsed x).
Proof.
  induction f as [|f [IHs IHa]]; split; intros ts depth acc atoms x rest H; try discriminate H.
  - rewrite scan_S in H. unfold bindr in H. break_in H;
      first [exact (IHs _ _ _ _ _ _ H) | exact (IHa _ _ _ _ _ _ H)].
  - rewrite after_S in H. cbv zeta in H. break_in H;
      first [exact (IHs _ _ _ _ _ _ H) | exact (IHa _ _ _ _ _ _ H) | idtac].
    all: injection H as Hx Hrest; subst x; exists (map fst (rev acc)); cbn [rw_shape rw_pos];
      split; [assumption|rewrite !map_length; reflexivity].
Qed.

(* (a) whatever the expression reader returns came out of Parse.parse *)
Theorem read_raw_is_parsed reals ts x rest :
  read_raw reals ts = ROk (x, rest) ->
  exists sk, parse sk = Some (rw_shape x) /\ length (rw_pos x) = length sk.
Proof.
  unfold read_raw. intros H. exact (proj1 (scan_after_parsed reals _) _ _ _ _ _ _ H).
Qed.

Lemma bindr_ok {A B} (x : rres A) (f : A -> rres B) (b : B) :
  bindr x f = ROk b -> exists a, x = ROk a /\ f a = ROk b.
Proof. destruct x as [a| | |]; cbn [bindr]; intros H; try discriminate H. exists a. split; [reflexivity|exact H]. Qed.

Theorem read_expr_is_the_reading reals ts e rest :
  read_expr reals ts = ROk (e, rest) ->
  exists x sk, parse sk = Some (rw_shape x) /\ print (rw_shape x) = sk /\ canon (rw_shape x) /\ sorted (rw_shape x) = true /\
               erel (rw_atoms x) (rw_shape x) e.
Proof.
  unfold read_expr. intros H.
  apply bindr_ok in H. destruct H as [[x rest'] [Hr H]].
  apply bindr_ok in H. destruct H as [e' [He H]].
  injection H as He' Hrest. subst.
  destruct (read_raw_is_parsed _ _ _ _ Hr) as [sk [Hp _]].
  destruct (parse_sound _ _ Hp) as [Hprint [Hcanon Hsorted]].
  exists x, sk. split; [exact Hp|]. split; [exact Hprint|]. split; [exact Hcanon|]. split; [exact Hsorted|].
  exact (proj1 (raw_expr_is_the_reading x e sk Hp He)).
Qed.

(* (c) positions in the trees are positions of tokens *)
Definition tok_positions (ts : toks) : list pos := map pt_pos ts.

(* ================= (c) positions ================= *)
Lemma incl_cons_l {A} (a : A) l m : incl (a :: l) m -> In a m /\ incl l m.
Proof. intros H. split; [apply H; left; reflexivity|intros x Hx; apply H; right; exact Hx]. Qed.

Lemma incl_map_rev {A B} (f : A -> B) l m : incl (map f l) m -> incl (map f (rev l)) m.
Proof. intros H x Hx. apply H. rewrite map_rev in Hx. apply in_rev in Hx. exact Hx. Qed.

Lemma incl_flat_map_rev {A B} (f : A -> list B) l m : incl (flat_map f l) m -> incl (flat_map f (rev l)) m.
Proof.
  intros H x Hx. apply H. apply in_flat_map in Hx. destruct Hx as [y [Hy Hxy]].
  apply in_flat_map. exists y. split; [apply in_rev; exact Hy|exact Hxy].
Qed.

Lemma incl_flat_map_snoc {A B} (f : A -> list B) l a m :
  incl (flat_map f l) m -> incl (f a) m -> incl (flat_map f (l ++ [a])) m.
Proof.
  intros H1 H2. rewrite flat_map_app. cbn [flat_map]. rewrite app_nil_r. apply incl_app; assumption.
Qed.

Lemma mpos_in m : In (mpos m) (positions_mexpr m).
Proof. destruct m; left; reflexivity. Qed.
Lemma epos_in e : In (epos e) (positions_expr e).
Proof. destruct e; left; reflexivity. Qed.

Lemma nth_atom_incl atoms n L :
  incl (flat_map positions_atom atoms) L -> incl (positions_atom (nth n atoms no_atom)) L.
Proof.
  intros H. destruct (nth_in_or_default n atoms no_atom) as [Hin|Hd].
  - intros x Hx. apply H. apply in_flat_map. exists (nth n atoms no_atom). split; assumption.
  - rewrite Hd. intros x [].
Qed.

Definition sub (all : list pos) (ts : toks) : Prop := incl (map pt_pos ts) all.

Lemma sub_hd all a r : sub all (a :: r) -> In (pt_pos a) all.
Proof. intros H. apply H. left. reflexivity. Qed.
Lemma sub_tl all a r : sub all (a :: r) -> sub all r.
Proof. intros H x Hx. apply H. right. exact Hx. Qed.
Lemma sub_nil all : sub all [].
Proof. intros x []. Qed.

Ltac incl_solve :=
  repeat match goal with
         | |- _ => assumption
         | |- incl [] _ => apply incl_nil_l
         | |- incl (_ :: _) _ => apply incl_cons
         | |- incl (_ ++ _) _ => apply incl_app
         | |- incl (map _ (rev _)) _ => apply incl_map_rev
         | |- incl (flat_map _ (rev _)) _ => apply incl_flat_map_rev
         | |- sub _ [] => apply sub_nil
         end.

Section Conv.
  Variable atoms : list atom.
  Variable L : list pos.
  Hypothesis HA : incl (flat_map positions_atom atoms) L.

  Lemma conv_m_pos : forall t ps m r, conv_m atoms t ps = Some (m, r) -> incl ps L ->
    incl (positions_mexpr m) L /\ incl r L.
  Proof.
    induction t as [neg n|neg t' IH|o l IHl rr IHr]; intros ps m r H Hps; cbn [conv_m] in H.
    - destruct neg; [discriminate H|]. destruct ps as [|p ps']; [discriminate H|].
      injection H as Hm Hr. subst. apply incl_cons_l in Hps. destruct Hps as [Hp Hps].
      split; [|exact Hps]. pos_cbn. apply incl_cons; [exact Hp|apply nth_atom_incl; exact HA].
    - destruct neg; [discriminate H|]. destruct ps as [|p ps']; [discriminate H|].
      destruct (conv_m atoms t' ps') as [[m' [|q r']]|] eqn:E; try discriminate H.
      injection H as Hm Hr. subst. apply incl_cons_l in Hps. destruct Hps as [Hp Hps].
      destruct (IH _ _ _ E Hps) as [H1 H2]. apply incl_cons_l in H2. destruct H2 as [_ H2].
      split; [|exact H2]. pos_cbn. apply incl_cons; assumption.
    - destruct o as [o|o|o]; try discriminate H.
      destruct (conv_m atoms l ps) as [[ml [|q r1]]|] eqn:El; try discriminate H.
      destruct (conv_m atoms rr r1) as [[mr r2]|] eqn:Er; try discriminate H.
      injection H as Hm Hr. subst.
      destruct (IHl _ _ _ El Hps) as [H1 H2]. apply incl_cons_l in H2. destruct H2 as [_ H2].
      destruct (IHr _ _ _ Er H2) as [H3 H4].
      split; [|exact H4]. pos_cbn. apply incl_cons; [apply H1, mpos_in|apply incl_app; assumption].
  Qed.

  Lemma conv_e_pos : forall t ps e r, conv_e atoms t ps = Some (e, r) -> incl ps L ->
    incl (positions_expr e) L /\ incl r L.
  Proof.
    assert (Hmath : forall t ps e r, is_math t = true -> conv_e atoms t ps = Some (e, r) -> incl ps L ->
                                     incl (positions_expr e) L /\ incl r L).
    { intros t ps e r Em H Hps. destruct (conv_e_math _ _ _ _ _ Em H) as [m [Hm He]]. subst e.
      destruct (conv_m_pos _ _ _ _ Hm Hps) as [H1 H2]. split; [|exact H2].
      pos_cbn. apply incl_cons; [apply H1, mpos_in|exact H1]. }
    induction t as [neg n|neg t' IH|o l IHl rr IHr]; intros ps e r H Hps.
    - destruct (is_math (SLeaf neg n)) eqn:Em; [exact (Hmath _ _ _ _ Em H Hps)|].
      destruct (conv_e_nonmath _ _ _ _ _ Em H) as [Hneg [p [q [Hp He]]]]. subst.
      apply incl_cons_l in Hps. destruct Hps as [Hp Hps]. apply incl_cons_l in Hps. destruct Hps as [_ Hps].
      split; [|exact Hps]. pos_cbn. apply incl_cons; [exact Hp|apply nth_atom_incl; exact HA].
    - destruct (is_math (SParen neg t')) eqn:Em; [exact (Hmath _ _ _ _ Em H Hps)|].
      destruct (conv_e_nonmath _ _ _ _ _ Em H) as [p [ps' [e' [q [Hp [He' He]]]]]]. subst.
      apply incl_cons_l in Hps. destruct Hps as [Hp Hps].
      assert (Hps' : incl (if neg then tl ps' else ps') L).
      { destruct neg; [|exact Hps]. destruct ps' as [|z ps']; [exact Hps|]. apply incl_cons_l in Hps. exact (proj2 Hps). }
      destruct (IH _ _ _ He' Hps') as [H1 H2]. apply incl_cons_l in H2. destruct H2 as [_ H2].
      split; [|exact H2]. pos_cbn. apply incl_cons; assumption.
    - destruct (is_math (SNode o l rr)) eqn:Em; [exact (Hmath _ _ _ _ Em H Hps)|].
      destruct (conv_e_nonmath _ _ _ _ _ Em H) as [el [q [r1 [er [Hl [Hr Hc]]]]]].
      destruct (IHl _ _ _ Hl Hps) as [H1 H2]. apply incl_cons_l in H2. destruct H2 as [_ H2].
      destruct (IHr _ _ _ Hr H2) as [H3 H4].
      split; [|exact H4].
      destruct Hc as [[c [Ho He]]|[c [Ho He]]]; subst; pos_cbn;
        (apply incl_cons; [apply H1, epos_in|apply incl_app; assumption]).
  Qed.
End Conv.

Lemma raw_expr_pos x e L : raw_expr x = ROk e ->
  incl (rw_pos x) L -> incl (flat_map positions_atom (rw_atoms x)) L -> incl (positions_expr e) L.
Proof.
  unfold raw_expr. intros H Hp Ha.
  destruct (conv_e (rw_atoms x) (rw_shape x) (rw_pos x)) as [[e' r]|] eqn:E; [|discriminate H].
  injection H as He. subst e'. exact (proj1 (conv_e_pos _ _ Ha _ _ _ _ E Hp)).
Qed.

Lemma raw_mexpr_pos x m L : raw_mexpr x = ROk m ->
  incl (rw_pos x) L -> incl (flat_map positions_atom (rw_atoms x)) L -> incl (positions_mexpr m) L.
Proof.
  unfold raw_mexpr. intros H Hp Ha.
  destruct (conv_m (rw_atoms x) (rw_shape x) (rw_pos x)) as [[m' r]|] eqn:E; [|discriminate H].
  injection H as He. subst m'. exact (proj1 (conv_m_pos _ _ Ha _ _ _ _ E Hp)).
Qed.

Lemma raw_arg_pos x a L : raw_arg x = ROk a ->
  incl (rw_pos x) L -> incl (flat_map positions_atom (rw_atoms x)) L -> incl (positions_arg a) L.
Proof.
  unfold raw_arg. intros H Hp Ha.
  assert (Hgen : (dor e <- raw_expr x ;; ROk (GExpr e)) = ROk a -> incl (positions_arg a) L).
  { intros H'. apply bindr_ok in H'. destruct H' as [e [He H']]. injection H' as H'. subst a.
    pos_cbn. exact (raw_expr_pos _ _ _ He Hp Ha). }
  destruct (rw_shape x) as [[|] n|neg t|o l r]; try exact (Hgen H).
  pose proof (nth_atom_incl (rw_atoms x) n L Ha) as Hn.
  destruct (nth n (rw_atoms x) no_atom) as [v|c|c|m]; injection H as H; subst a; cbn [positions_atom positions_arg] in Hn |- *;
    first [exact Hn | apply incl_nil_l].
Qed.

(* ---- token positions: everything is stated relative to a fixed list [all] containing the positions of the input tokens ---- *)
Ltac sub_fwd :=
  repeat match goal with
         | H : sub ?all (?a :: ?r) |- _ =>
           lazymatch goal with
           | _ : sub all r |- _ => fail
           | _ => pose proof (sub_hd _ _ _ H); pose proof (sub_tl _ _ _ H)
           end
         end.

Ltac fin :=
  pos_cbn; unfold positions_assign; pos_cbn; cbn [rw_pos rw_atoms as_pos as_target as_rhs mv_pos r_body];
  repeat split; incl_solve.

Lemma read_const_pos reals all ts c p rest :
  read_const reals ts = Some (ROk (c, p, rest)) -> sub all ts -> In p all /\ sub all rest.
Proof.
  intros H Hs. unfold read_const in H. unfold bindr in H. break_in H.
  all: subst; injection H; clear H; intros; subst; sub_fwd; split; assumption.
Qed.

Lemma read_key_pos all ts k rest : read_key ts = ROk (k, rest) -> sub all ts -> sub all rest.
Proof.
  intros H Hs. unfold read_key in H. unfold bindr in H. break_in H.
  all: subst; injection H; clear H; intros; subst; sub_fwd; assumption.
Qed.

Lemma read_target_pos all ts tg p rest : read_target ts = ROk (tg, p, rest) -> sub all ts ->
  incl (positions_target tg) all /\ In p all /\ sub all rest.
Proof.
  intros H Hs. unfold read_target in H. unfold bindr in H. break_in H.
  all: subst; injection H; clear H; intros; subst; sub_fwd;
    repeat match goal with
           | X : read_key ?ts = ROk _, Y : sub _ ?ts |- _ => pose proof (read_key_pos _ _ _ _ X Y); clear X
           end; fin.
Qed.

Lemma expect_pos all y ts r : expect y ts = ROk r -> sub all ts -> sub all r.
Proof.
  intros H Hs. unfold expect in H. destruct ts as [|t ts']; [discriminate H|].
  destruct (tk t); try discriminate H.
  destruct (Nat.eqb _ _); [|discriminate H]. injection H as H. subst. exact (sub_tl _ _ _ Hs).
Qed.

(* ---- the expression readers ---- *)
Lemma read_atom_S reals f ts :
  read_atom reals (S f) ts =
  match read_const reals ts with
  | Some r => dor x <- r ;; (let '(c, p, rest) := x in ROk (AConst c, p, rest))
  | None =>
    match ts with
    | t :: r =>
      match tk t with
      | LxName dots n =>
        match r with
        | t2 :: r2 =>
          match tk t2 with
          | LxSym Y_lpar => dor x <- read_args reals f r2 ;; (let '(a, rest) := x in ROk (ACall (Call (ckind_of dots) (pt_pos t) n a), pt_pos t, rest))
          | LxSym Y_lsq => dor x <- read_key r2 ;; (let '(k, rest) := x in ROk (AMapVar (mkMV (pt_pos t) n k), pt_pos t, rest))
          | _ => ROk (AVar n, pt_pos t, r)
          end
        | [] => ROk (AVar n, pt_pos t, r)
        end
      | _ => RErr
      end
    | [] => RErr
    end
  end.
Proof. reflexivity. Qed.

Lemma read_args_S reals f ts :
  read_args reals (S f) ts =
  match ts with
  | t :: r =>
    match tk t with
    | LxSym Y_rpar => ROk (ANil, r)
    | _ => read_arglist reals f ts
    end
  | [] => RErr
  end.
Proof. reflexivity. Qed.

Lemma read_arglist_S reals f ts :
  read_arglist reals (S f) ts =
  (dor x <- scan reals f ts 0 [] [] ;;
   let '(raw, rest) := x in
   dor a <- raw_arg raw ;;
   match rest with
   | t :: r =>
     match tk t with
     | LxSym Y_rpar => ROk (ACons a ANil, r)
     | LxSym Y_comma => dor y <- read_arglist reals f r ;; (let '(more, rest') := y in ROk (ACons a more, rest'))
     | _ => RErr
     end
   | [] => RErr
   end).
Proof. reflexivity. Qed.

Section ExprPos.
  Variable reals : reals_t.
  Variable all : list pos.

  Definition atom_spec (f : nat) : Prop := forall ts a p rest,
    read_atom reals f ts = ROk (a, p, rest) -> sub all ts ->
    incl (positions_atom a) all /\ In p all /\ sub all rest.
  Definition args_spec (f : nat) : Prop := forall ts a rest,
    read_args reals f ts = ROk (a, rest) -> sub all ts -> incl (positions_args a) all /\ sub all rest.
  Definition arglist_spec (f : nat) : Prop := forall ts a rest,
    read_arglist reals f ts = ROk (a, rest) -> sub all ts -> incl (positions_args a) all /\ sub all rest.
  Definition scan_spec (f : nat) : Prop := forall ts depth acc atoms x rest,
    scan reals f ts depth acc atoms = ROk (x, rest) -> sub all ts ->
    incl (map snd acc) all -> incl (flat_map positions_atom atoms) all ->
    incl (rw_pos x) all /\ incl (flat_map positions_atom (rw_atoms x)) all /\ sub all rest.
  Definition after_spec (f : nat) : Prop := forall ts depth acc atoms x rest,
    after reals f ts depth acc atoms = ROk (x, rest) -> sub all ts ->
    incl (map snd acc) all -> incl (flat_map positions_atom atoms) all ->
    incl (rw_pos x) all /\ incl (flat_map positions_atom (rw_atoms x)) all /\ sub all rest.

  Section Step.
    Variable f : nat.
    Hypothesis IHA : atom_spec f.
    Hypothesis IHB : args_spec f.
    Hypothesis IHC : arglist_spec f.
    Hypothesis IHD : scan_spec f.
    Hypothesis IHE : after_spec f.

    Ltac acc_side acc atoms :=
      [> cbn [map snd]; incl_solve
       | first [assumption | exact (incl_nil_l _) | apply incl_flat_map_snoc; assumption] ].

    Ltac fwd :=
      sub_fwd;
      repeat (
        match goal with
        | H : read_const reals ?ts = Some (ROk _), Hs : sub all ?ts |- _ =>
          pose proof (read_const_pos _ _ _ _ _ _ H Hs) as (? & ?); clear H
        | H : read_key ?ts = ROk _, Hs : sub all ?ts |- _ =>
          pose proof (read_key_pos _ _ _ _ H Hs); clear H
        | H : read_atom reals f ?ts = ROk _, Hs : sub all ?ts |- _ =>
          pose proof (IHA _ _ _ _ H Hs) as (? & ? & ?); clear H
        | H : read_args reals f ?ts = ROk _, Hs : sub all ?ts |- _ =>
          pose proof (IHB _ _ _ H Hs) as (? & ?); clear H
        | H : read_arglist reals f ?ts = ROk _, Hs : sub all ?ts |- _ =>
          pose proof (IHC _ _ _ H Hs) as (? & ?); clear H
        | H : scan reals f ?ts _ ?acc ?atoms = ROk _, Hs : sub all ?ts |- _ =>
          let Ha := fresh "Ha" in let Hb := fresh "Hb" in
          assert (Ha : incl (map snd acc) all) by (cbn [map snd]; incl_solve);
          assert (Hb : incl (flat_map positions_atom atoms) all)
            by (first [assumption | exact (incl_nil_l _) | apply incl_flat_map_snoc; assumption]);
          pose proof (IHD _ _ _ _ _ _ H Hs Ha Hb) as (? & ? & ?); clear H
        | H : after reals f ?ts _ ?acc ?atoms = ROk _, Hs : sub all ?ts |- _ =>
          let Ha := fresh "Ha" in let Hb := fresh "Hb" in
          assert (Ha : incl (map snd acc) all) by (cbn [map snd]; incl_solve);
          assert (Hb : incl (flat_map positions_atom atoms) all)
            by (first [assumption | exact (incl_nil_l _) | apply incl_flat_map_snoc; assumption]);
          pose proof (IHE _ _ _ _ _ _ H Hs Ha Hb) as (? & ? & ?); clear H
        | H : raw_arg ?x = ROk _, H1 : incl (rw_pos ?x) all, H2 : incl (flat_map positions_atom (rw_atoms ?x)) all |- _ =>
          pose proof (raw_arg_pos _ _ _ H H1 H2); clear H
        end; sub_fwd).

    Ltac leaf H := subst; try (injection H; clear H; intros; subst); fwd; fin.

    Lemma atom_step : atom_spec (S f).
    Proof.
      intros ts a p rest H Hs. rewrite read_atom_S in H. unfold bindr in H. break_in H.
      all: leaf H.
    Qed.

    Lemma args_step : args_spec (S f).
    Proof.
      intros ts a rest H Hs. rewrite read_args_S in H. break_in H.
      all: leaf H.
    Qed.

    Lemma arglist_step : arglist_spec (S f).
    Proof.
      intros ts a rest H Hs. rewrite read_arglist_S in H. unfold bindr in H. break_in H.
      all: leaf H.
    Qed.

    Lemma scan_step : scan_spec (S f).
    Proof.
      intros ts depth acc atoms x rest H Hs Hacc Hat. rewrite scan_S in H. unfold bindr in H. break_in H.
      all: leaf H.
    Qed.

    Lemma after_step : after_spec (S f).
    Proof.
      intros ts depth acc atoms x rest H Hs Hacc Hat. rewrite after_S in H. cbv zeta in H. break_in H.
      all: leaf H.
    Qed.
  End Step.

  Lemma expr_block_pos : forall f, atom_spec f /\ args_spec f /\ arglist_spec f /\ scan_spec f /\ after_spec f.
  Proof.
    induction f as [|f (IHA & IHB & IHC & IHD & IHE)].
    - unfold atom_spec, args_spec, arglist_spec, scan_spec, after_spec.
      split; [|split; [|split; [|split]]]; intros;
        match goal with H : _ = ROk _ |- _ => discriminate H end.
    - split; [|split; [|split; [|split]]].
      + exact (atom_step f IHB).
      + exact (args_step f IHC).
      + exact (arglist_step f IHC IHD).
      + exact (scan_step f IHA IHD IHE).
      + exact (after_step f IHD IHE).
  Qed.
End ExprPos.

(* ---- statements ---- *)
Lemma read_conc_S reals f ts asgs calls0 calls1 calls2 :
  read_conc reals (S f) ts asgs calls0 calls1 calls2 =
  match ts with
  | t :: r =>
    match tk t with
    | LxSym Y_rbrace => ROk (rev asgs ++ rev calls0 ++ rev calls1 ++ rev calls2, r)
    | LxName dots _ =>
      if is_call_start ts then
        dor x <- read_call reals ts ;;
        let '(c, rest) := x in
        match dots with
        | 0 => read_conc reals f rest asgs (CCCall c :: calls0) calls1 calls2
        | 1 => read_conc reals f rest asgs calls0 (CCCall c :: calls1) calls2
        | _ => read_conc reals f rest asgs calls0 calls1 (CCCall c :: calls2)
        end
      else
        dor x <- read_assign reals ts ;;
        let '(a, rest) := x in read_conc reals f rest (CCAsg a :: asgs) calls0 calls1 calls2
    | _ => RErr
    end
  | [] => RErr
  end.
Proof. reflexivity. Qed.

Lemma read_block_S reals f ts :
  read_block reals (S f) ts =
  (dor x <- read_stmts reals f ts ;;
   let '(ss, r) := x in
   match r with
   | t :: r2 =>
     match tk t with
     | LxKw Kw_return =>
       match r2 with
       | t3 :: _ =>
         if starts_expr t3 then dor y <- read_expr reals r2 ;; (let '(e, rest) := y in ROk (Block ss (Some (Some e)), rest))
         else ROk (Block ss (Some None), r2)
       | [] => ROk (Block ss (Some None), r2)
       end
     | _ => ROk (Block ss None, r)
     end
   | [] => ROk (Block ss None, r)
   end).
Proof. reflexivity. Qed.

Lemma read_stmts_S reals f ts :
  read_stmts reals (S f) ts =
  (dor x <- read_stmt reals f ts ;;
   match x with
   | None => ROk (SNil, ts)
   | Some (s, rest) => dor y <- read_stmts reals f rest ;; (let '(more, rest') := y in ROk (SCons s more, rest'))
   end).
Proof. reflexivity. Qed.

Lemma read_stmt_S reals f ts :
  read_stmt reals (S f) ts =
  match ts with
  | t :: r =>
    match tk t with
    | LxKw Kw_if =>
      dor x <- read_expr reals r ;;
      let '(c, r1) := x in
      dor y <- read_braced reals f r1 ;;
      let '(th, r2) := y in
      dor z <- read_elifs reals f r2 ;;
      let '(els, el, r3) := z in
      ROk (Some (SIf c th els el, r3))
    | LxKw Kw_for =>
      dor x <- read_assign reals r ;;
      let '(init, r1) := x in
      dor r2 <- expect Y_semi r1 ;;
      dor y <- read_expr reals r2 ;;
      let '(c, r3) := y in
      dor r4 <- expect Y_semi r3 ;;
      dor z <- read_assign reals r4 ;;
      let '(step, r5) := z in
      dor w <- read_braced reals f r5 ;;
      let '(body, r6) := w in
      ROk (Some (SFor (pt_pos t) init c step body, r6))
    | LxKw Kw_forrange =>
      match r with
      | a :: b :: c :: r1 =>
        match tk a, tk b, tk c with
        | LxName _ k, LxSym Y_assign, LxName _ coll =>
          dor w <- read_braced reals f r1 ;;
          let '(body, r2) := w in
          ROk (Some (SForRange (pt_pos t) k coll body, r2))
        | _, _, _ => RErr
        end
      | _ => RErr
      end
    | LxKw Kw_break => ROk (Some (SBreak, r))
    | LxKw Kw_continue => ROk (Some (SContinue, r))
    | LxKw Kw_conc =>
      dor r1 <- expect Y_lbrace r ;;
      dor x <- read_conc reals (S (length r1)) r1 [] [] [] [] ;;
      let '(cs, r2) := x in ROk (Some (SConc cs, r2))
    | LxName _ _ =>
      if is_call_start ts then dor x <- read_call reals ts ;; (let '(c, rest) := x in ROk (Some (SCall c, rest)))
      else dor x <- read_assign reals ts ;; (let '(a, rest) := x in ROk (Some (SAssign a, rest)))
    | _ => ROk None
    end
  | [] => ROk None
  end.
Proof. reflexivity. Qed.

Lemma read_braced_S reals f ts :
  read_braced reals (S f) ts =
  (dor r1 <- expect Y_lbrace ts ;;
   dor x <- read_block reals f r1 ;;
   let '(b, r2) := x in
   dor r3 <- expect Y_rbrace r2 ;;
   ROk (b, r3)).
Proof. reflexivity. Qed.

Lemma read_elifs_S reals f ts :
  read_elifs reals (S f) ts =
  match ts with
  | a :: b :: r =>
    match tk a, tk b with
    | LxKw Kw_else, LxKw Kw_if =>
      dor x <- read_expr reals r ;;
      let '(c, r1) := x in
      dor y <- read_braced reals f r1 ;;
      let '(blk, r2) := y in
      dor z <- read_elifs reals f r2 ;;
      let '(more, el, r3) := z in
      ROk (ECons c blk more, el, r3)
    | LxKw Kw_else, _ =>
      dor y <- read_braced reals f (b :: r) ;;
      let '(blk, r2) := y in
      ROk (ENil, Some blk, r2)
    | _, _ => ROk (ENil, None, ts)
    end
  | _ => ROk (ENil, None, ts)
  end.
Proof. reflexivity. Qed.

Section StmtPos.
  Variable reals : reals_t.
  Variable all : list pos.

  Lemma read_raw_pos ts x rest : read_raw reals ts = ROk (x, rest) -> sub all ts ->
    incl (rw_pos x) all /\ incl (flat_map positions_atom (rw_atoms x)) all /\ sub all rest.
  Proof.
    unfold read_raw. intros H Hs.
    destruct (expr_block_pos reals all (efuel ts)) as (_ & _ & _ & HD & _).
    apply (HD _ _ _ _ _ _ H Hs); intros q [].
  Qed.

  Ltac base_rule :=
    match goal with
    | H : read_raw reals ?ts = ROk _, Hs : sub all ?ts |- _ =>
      pose proof (read_raw_pos _ _ _ H Hs) as (? & ? & ?); clear H
    | H : read_target ?ts = ROk _, Hs : sub all ?ts |- _ =>
      pose proof (read_target_pos _ _ _ _ _ H Hs) as (? & ? & ?); clear H
    | H : expect _ ?ts = ROk _, Hs : sub all ?ts |- _ =>
      pose proof (expect_pos _ _ _ _ H Hs); clear H
    | H : raw_expr ?x = ROk _, H1 : incl (rw_pos ?x) all, H2 : incl (flat_map positions_atom (rw_atoms ?x)) all |- _ =>
      pose proof (raw_expr_pos _ _ _ H H1 H2); clear H
    | H : raw_mexpr ?x = ROk _, H1 : incl (rw_pos ?x) all, H2 : incl (flat_map positions_atom (rw_atoms ?x)) all |- _ =>
      pose proof (raw_mexpr_pos _ _ _ H H1 H2); clear H
    | H : read_atom reals ?f ?ts = ROk _, Hs : sub all ?ts |- _ =>
      pose proof (proj1 (expr_block_pos reals all f) _ _ _ _ H Hs) as (? & ? & ?); clear H
    end.

  Ltac fin2 := rewrite ?flat_map_app; fin; cbv beta match; incl_solve.
  Ltac leaf0 H := subst; try (injection H; clear H; intros; subst); sub_fwd; repeat (base_rule; sub_fwd); fin2.

  Lemma read_expr_pos ts e rest : read_expr reals ts = ROk (e, rest) -> sub all ts ->
    incl (positions_expr e) all /\ sub all rest.
  Proof.
    intros H Hs. unfold read_expr in H. unfold bindr in H. break_in H. all: leaf0 H.
  Qed.

  Lemma read_call_pos ts c rest : read_call reals ts = ROk (c, rest) -> sub all ts ->
    incl (positions_call c) all /\ sub all rest.
  Proof.
    intros H Hs. unfold read_call in H. unfold bindr in H. break_in H.
    all: subst; injection H; clear H; intros; subst; repeat base_rule; cbn [positions_atom] in *; split; assumption.
  Qed.

  Lemma read_assign_pos ts a rest : read_assign reals ts = ROk (a, rest) -> sub all ts ->
    incl (positions_assign a) all /\ sub all rest.
  Proof.
    intros H Hs. unfold read_assign in H. unfold bindr in H. break_in H. all: leaf0 H.
  Qed.

  Ltac stmt_rule :=
    match goal with
    | H : read_expr reals ?ts = ROk _, Hs : sub all ?ts |- _ =>
      pose proof (read_expr_pos _ _ _ H Hs) as (? & ?); clear H
    | H : read_call reals ?ts = ROk _, Hs : sub all ?ts |- _ =>
      pose proof (read_call_pos _ _ _ H Hs) as (? & ?); clear H
    | H : read_assign reals ?ts = ROk _, Hs : sub all ?ts |- _ =>
      pose proof (read_assign_pos _ _ _ H Hs) as (? & ?); clear H
    end.

  Definition conc_spec (f : nat) : Prop := forall ts asgs c0 c1 c2 cs rest,
    read_conc reals f ts asgs c0 c1 c2 = ROk (cs, rest) -> sub all ts ->
    incl (flat_map positions_cchild asgs) all -> incl (flat_map positions_cchild c0) all ->
    incl (flat_map positions_cchild c1) all -> incl (flat_map positions_cchild c2) all ->
    incl (flat_map positions_cchild cs) all /\ sub all rest.

  Section ConcStep.
    Variable f : nat.
    Hypothesis IH : conc_spec f.

    Ltac cside := cbn [flat_map]; pos_cbn; unfold positions_assign; incl_solve.
    Ltac conc_rule :=
      match goal with
      | H : read_conc reals f ?ts ?a ?b ?c ?d = ROk _, Hs : sub all ?ts |- _ =>
        let Ha := fresh "Ha" in let Hb := fresh "Hb" in let Hc := fresh "Hc" in let Hd := fresh "Hd" in
        assert (Ha : incl (flat_map positions_cchild a) all) by cside;
        assert (Hb : incl (flat_map positions_cchild b) all) by cside;
        assert (Hc : incl (flat_map positions_cchild c) all) by cside;
        assert (Hd : incl (flat_map positions_cchild d) all) by cside;
        pose proof (IH _ _ _ _ _ _ _ H Hs Ha Hb Hc Hd) as (? & ?); clear H
      end.

    Lemma conc_step : conc_spec (S f).
    Proof.
      intros ts asgs c0 c1 c2 cs rest H Hs H0 H1 H2 H3. rewrite read_conc_S in H. unfold bindr in H. break_in H.
      all: subst; try (injection H; clear H; intros; subst); sub_fwd;
        repeat (first [base_rule | stmt_rule | conc_rule]; sub_fwd); fin2.
    Qed.
  End ConcStep.

  Lemma read_conc_pos : forall f, conc_spec f.
  Proof.
    induction f as [|f IH]; [intros ts asgs c0 c1 c2 cs rest H; discriminate H|exact (conc_step f IH)].
  Qed.

  Definition block_spec (f : nat) : Prop := forall ts b rest,
    read_block reals f ts = ROk (b, rest) -> sub all ts -> incl (positions_block b) all /\ sub all rest.
  Definition stmts_spec (f : nat) : Prop := forall ts ss rest,
    read_stmts reals f ts = ROk (ss, rest) -> sub all ts -> incl (positions_stmts ss) all /\ sub all rest.
  Definition stmt_spec (f : nat) : Prop := forall ts s rest,
    read_stmt reals f ts = ROk (Some (s, rest)) -> sub all ts -> incl (positions_stmt s) all /\ sub all rest.
  Definition braced_spec (f : nat) : Prop := forall ts b rest,
    read_braced reals f ts = ROk (b, rest) -> sub all ts -> incl (positions_block b) all /\ sub all rest.
  Definition elifs_spec (f : nat) : Prop := forall ts els el rest,
    read_elifs reals f ts = ROk (els, el, rest) -> sub all ts ->
    incl (positions_elifs els) all /\ incl (match el with Some b => positions_block b | None => [] end) all /\ sub all rest.

  Section BlockStep.
    Variable f : nat.
    Hypothesis IHblock : block_spec f.
    Hypothesis IHstmts : stmts_spec f.
    Hypothesis IHstmt : stmt_spec f.
    Hypothesis IHbraced : braced_spec f.
    Hypothesis IHelifs : elifs_spec f.

    Ltac block_rule :=
      match goal with
      | H : read_block reals f ?ts = ROk _, Hs : sub all ?ts |- _ =>
        pose proof (IHblock _ _ _ H Hs) as (? & ?); clear H
      | H : read_stmts reals f ?ts = ROk _, Hs : sub all ?ts |- _ =>
        pose proof (IHstmts _ _ _ H Hs) as (? & ?); clear H
      | H : read_stmt reals f ?ts = ROk (Some _), Hs : sub all ?ts |- _ =>
        pose proof (IHstmt _ _ _ H Hs) as (? & ?); clear H
      | H : read_braced reals f ?ts = ROk _, Hs : sub all ?ts |- _ =>
        pose proof (IHbraced _ _ _ H Hs) as (? & ?); clear H
      | H : read_elifs reals f ?ts = ROk _, Hs : sub all ?ts |- _ =>
        pose proof (IHelifs _ _ _ _ H Hs) as (? & ? & ?); clear H
      | H : read_conc reals ?g ?ts [] [] [] [] = ROk _, Hs : sub all ?ts |- _ =>
        pose proof (read_conc_pos g _ _ _ _ _ _ _ H Hs (incl_nil_l _) (incl_nil_l _) (incl_nil_l _) (incl_nil_l _)) as (? & ?);
        clear H
      end.

    Ltac leaf2 H := subst; try (injection H; clear H; intros; subst); sub_fwd;
                    repeat (first [base_rule | stmt_rule | block_rule]; sub_fwd); fin2.

    Lemma block_step : block_spec (S f).
    Proof.
      intros ts b rest H Hs. rewrite read_block_S in H. unfold bindr in H. break_in H. all: leaf2 H.
    Qed.
    Lemma stmts_step : stmts_spec (S f).
    Proof.
      intros ts ss rest H Hs. rewrite read_stmts_S in H. unfold bindr in H. break_in H. all: leaf2 H.
    Qed.
    Lemma stmt_step : stmt_spec (S f).
    Proof.
      intros ts s rest H Hs. rewrite read_stmt_S in H. unfold bindr in H. break_in H. all: leaf2 H.
    Qed.
    Lemma braced_step : braced_spec (S f).
    Proof.
      intros ts b rest H Hs. rewrite read_braced_S in H. unfold bindr in H. break_in H. all: leaf2 H.
    Qed.
    Lemma elifs_step : elifs_spec (S f).
    Proof.
      intros ts els el rest H Hs. rewrite read_elifs_S in H. unfold bindr in H. break_in H. all: leaf2 H.
    Qed.
  End BlockStep.

  Lemma stmt_block_pos : forall f, block_spec f /\ stmts_spec f /\ stmt_spec f /\ braced_spec f /\ elifs_spec f.
  Proof.
    induction f as [|f (IH1 & IH2 & IH3 & IH4 & IH5)].
    - unfold block_spec, stmts_spec, stmt_spec, braced_spec, elifs_spec.
      split; [|split; [|split; [|split]]]; intros;
        match goal with H : _ = ROk _ |- _ => discriminate H end.
    - split; [|split; [|split; [|split]]].
      + exact (block_step f IH2).
      + exact (stmts_step f IH2 IH3).
      + exact (stmt_step f IH4 IH5).
      + exact (braced_step f IH1).
      + exact (elifs_step f IH4 IH5).
  Qed.
End StmtPos.

(* ---- rules and texts ---- *)
Lemma read_rule_pos reals all ts r rest : read_rule reals ts = ROk (r, rest) -> sub all ts ->
  incl (positions_block (r_body r)) all /\ sub all rest.
Proof.
  intros H Hs. unfold read_rule in H. unfold bindr in H. break_in H.
  all: subst; injection H; clear H; intros; subst; sub_fwd;
    repeat match goal with
           | X : read_block _ ?g ?ts = ROk _, Y : sub _ ?ts |- _ =>
             pose proof (proj1 (stmt_block_pos _ _ g) _ _ _ X Y) as (? & ?); clear X; sub_fwd
           end;
    cbn [r_body]; split; assumption.
Qed.

Lemma read_rules_pos reals all : forall fuel ts acc rs rest,
  read_rules reals fuel ts acc = ROk (rs, rest) -> sub all ts ->
  (forall r, In r acc -> incl (positions_block (r_body r)) all) ->
  forall r, In r rs -> incl (positions_block (r_body r)) all.
Proof.
  induction fuel as [|f IH]; intros ts acc rs rest H Hs Hacc; [discriminate H|].
  rewrite read_rules_S in H. unfold bindr in H.
  destruct (read_rule reals ts) as [[r0 rest']| | |] eqn:Er; try discriminate H.
  destruct (name_in (m_name (r_meta r0)) acc); [discriminate H|].
  destruct (read_rule_pos _ _ _ _ _ Er Hs) as [Hr0 Hrest'].
  assert (Hacc' : forall r, In r (r0 :: acc) -> incl (positions_block (r_body r)) all).
  { intros r [Hr|Hr]; [subst r; exact Hr0|exact (Hacc r Hr)]. }
  assert (Hfin : ROk (rev (r0 :: acc), rest') = ROk (rs, rest) ->
                 forall r, In r rs -> incl (positions_block (r_body r)) all).
  { intros Heq. injection Heq as Hrs Hrest. intros r Hr. rewrite <- Hrs in Hr. apply Hacc'. apply in_rev. exact Hr. }
  destruct rest' as [|t0 rest'']; [exact (Hfin H)|].
  destruct (tk t0) as [k|dots nm|si|sr|ss|a|b sb|y]; try exact (Hfin H).
  destruct k; try exact (Hfin H).
  exact (IH _ _ _ _ H Hrest' Hacc').
Qed.

Lemma read_text_rules reals s rs : read_text reals s = ROk rs ->
  exists rest, read_rules reals (S (length (lx_toks (lex s)))) (lx_toks (lex s)) [] = ROk (rs, rest).
Proof.
  unfold read_text. cbv zeta. intros H.
  destruct (read_rules reals (S (length (lx_toks (lex s)))) (lx_toks (lex s)) []) as [[rs' rest]| | |] eqn:E.
  - assert (Hrs : rs' = rs).
    { destruct rest; destruct (lx_bad (lex s)); destruct (lx_unsup (lex s)); try discriminate H;
        injection H as H; exact H. }
    subst rs'. exists rest. reflexivity.
  - destruct (lx_unsup (lex s)); discriminate H.
  - discriminate H.
  - discriminate H.
Qed.

Theorem read_text_positions_are_token_positions reals s rs :
  read_text reals s = ROk rs ->
  forall r, In r rs -> forall p, In p (positions_block (r_body r)) ->
  exists t, In t (lx_toks (lex s)) /\ pt_pos t = p.
Proof.
  intros H r Hr p Hp.
  destruct (read_text_rules _ _ _ H) as [rest Hrules].
  pose proof (read_rules_pos reals (map pt_pos (lx_toks (lex s))) _ _ _ _ _ Hrules (incl_refl _)
                (fun r0 (Hin : In r0 []) => match Hin with end) r Hr p Hp) as Hin.
  apply in_map_iff in Hin. destruct Hin as [t [Ht Hin]].
  exists t. split; assumption.
Qed.

(* hence: a position stored in a tree read from the text s is (line, column) of a token of s, computed from the text before it *)
Corollary read_text_positions_are_text_lines reals s rs :
  read_text reals s = ROk rs ->
  forall r, In r rs -> forall p, In p (positions_block (r_body r)) ->
  exists off, off < String.length s /\
              fst p = 1 + count_nl (firstn off (list_ascii_of_string s)) /\
              snd p = length (last_line (firstn off (list_ascii_of_string s))).
Proof.
  intros H r Hr p Hp.
  destruct (read_text_positions_are_token_positions _ _ _ H r Hr p Hp) as [t [Hin Ht]].
  exists (pt_off t). split; [exact (lex_offsets_in_text s t Hin)|].
  subst p. exact (lex_token_line s t Hin).
Qed.

From GV Require Lang.Sem.
(* the three layers composed: text -> (lexer, reader) -> tree -> (evaluator) -> cited positions.  For every float_ops record,
   metadata and literal decoder: a position cited by the failure of a rule READ FROM THE TEXT s is line / column of a token of s *)
Theorem cited_positions_are_lines_of_the_text fo meta real_of contained reals s rs r inj tr cs :
  read_text reals s = ROk rs -> In r rs ->
  fst (Sem.exec_rule fo meta real_of contained (r_body r) inj tr) = Sem.RRError cs ->
  forall p, In p cs ->
  exists off, off < String.length s /\
              fst p = 1 + count_nl (firstn off (list_ascii_of_string s)) /\
              snd p = length (last_line (firstn off (list_ascii_of_string s))).
Proof.
  intros Hread Hin Hexec p Hp.
  apply (read_text_positions_are_text_lines reals s rs Hread r Hin p).
  exact (rule_error_cites_construct_positions fo meta real_of contained (r_body r) inj tr cs Hexec p Hp).
Qed.

Print Assumptions read_raw_is_parsed.
Print Assumptions read_expr_is_the_reading.
Print Assumptions read_text_positions_are_token_positions.
Print Assumptions read_text_positions_are_text_lines.
Print Assumptions cited_positions_are_lines_of_the_text.
