(* Lang/StoreFacts.v — facts about the data context of Lang/Store.v (C03): injected data is
   read, written and called faithfully.  Reads of scalars / fields / nested fields / map
   entries / slice elements; the conversion guard [representable] under which the reflect
   Set* conversions keep the mathematical value; writes with their frame; calls with the
   positional conversion of arguments; injected names shadow locals. *)
From Coq Require Import Ascii String List ZArith Bool Lia ZifyBool.
From GV Require Import Lang.Value Lang.Syntax Lang.Store.
Import ListNotations.
Local Open Scope string_scope.
Local Open Scope Z_scope.

(* ---------- paths: the three shapes of a name ---------- *)
Example path_of_simple : path_of "h" = ["h"].
Proof. reflexivity. Qed.
Example path_of_dotted : path_of "h.I64" = ["h"; "I64"].
Proof. reflexivity. Qed.
Example path_of_double_dotted : path_of "h.Sub.N" = ["h"; "Sub"; "N"].
Proof. reflexivity. Qed.

(* ---------- wrap-around is the identity on in-range numbers ---------- *)
Lemma pow2_split : forall n, 0 < n -> 2 ^ n = 2 * 2 ^ (n - 1).
Proof. intros n Hn. rewrite <- Z.pow_succ_r by lia. f_equal. lia. Qed.

Lemma swrap_small : forall n z, 0 < n -> - 2 ^ (n - 1) <= z < 2 ^ (n - 1) -> swrap n z = z.
Proof.
  intros n z Hn H. unfold swrap. pose proof (pow2_split n Hn) as E.
  rewrite Z.mod_small; lia.
Qed.

Lemma uwrap_small : forall n z, 0 <= z < 2 ^ n -> uwrap n z = z.
Proof. intros n z H. unfold uwrap. apply Z.mod_small. exact H. Qed.

Lemma swrap_id : forall k z, in_irange k z = true -> swrap (ibits k) z = z.
Proof.
  intros k z H. unfold in_irange in H. apply andb_true_iff in H. destruct H as [H1 H2].
  apply Z.leb_le in H1. apply Z.ltb_lt in H2.
  apply swrap_small; [destruct k; reflexivity | lia].
Qed.

Lemma uwrap_id : forall k z, in_urange k z = true -> uwrap (ubits k) z = z.
Proof.
  intros k z H. unfold in_urange in H. apply andb_true_iff in H. destruct H as [H1 H2].
  apply Z.leb_le in H1. apply Z.ltb_lt in H2. apply uwrap_small. lia.
Qed.

Lemma in_urange_nonneg : forall k z, in_urange k z = true -> (0 <=? z) = true.
Proof. intros k z H. unfold in_urange in H. apply andb_true_iff in H. tauto. Qed.

Lemma sty_eqb_eq : forall a b, sty_eqb a b = true <-> a = b.
Proof.
  intros a b. split.
  - destruct a as [k|k|k| |], b as [k'|k'|k'| |]; try discriminate; try reflexivity;
      destruct k, k'; try discriminate; reflexivity.
  - intros <-. destruct a as [k|k|k| |]; try reflexivity; destruct k; reflexivity.
Qed.

Lemma sty_eqb_refl : forall a, sty_eqb a a = true.
Proof. intros a. apply sty_eqb_eq. reflexivity. Qed.

(* ---------- association lists and field lists: read-after-write and frame ---------- *)
Lemma alookup_aset_eq : forall V n (v : V) m, alookup n (aset n v m) = Some v.
Proof.
  induction m as [|[k w] m IH]; cbn.
  - rewrite String.eqb_refl. reflexivity.
  - destruct (String.eqb k n) eqn:E; cbn; rewrite E; auto.
Qed.

Lemma aset_frame : forall V a a' (o : V) m, a' <> a -> alookup a' (aset a o m) = alookup a' m.
Proof.
  induction m as [|[k w] m IH]; intros Hn; cbn.
  - destruct (String.eqb_spec a a'); congruence.
  - destruct (String.eqb_spec k a); cbn.
    + subst. destruct (String.eqb_spec a a'); congruence.
    + destruct (String.eqb k a'); auto.
Qed.

Section StoreFacts.
  Variable fo : float_ops.
  Notation value := (value fo).
  Notation env := (env fo).
  Notation hobj := (hobj fo).
  Notation hfields := (hfields fo).

  Lemma flookup_fset_eq : forall b (o : hobj) fs,
    flookup fo b fs <> None -> flookup fo b (fset fo b o fs) = Some o.
  Proof.
    induction fs as [|k x r IH]; cbn; intros H; [congruence|].
    destruct (String.eqb k b) eqn:E; cbn; rewrite E; auto.
  Qed.

  Lemma fset_frame : forall b b' (o : hobj) fs, b' <> b -> flookup fo b' (fset fo b o fs) = flookup fo b' fs.
  Proof.
    induction fs as [|k x r IH]; intros Hn; cbn; [reflexivity|].
    destruct (String.eqb_spec k b); cbn.
    - subst. destruct (String.eqb_spec b b'); congruence.
    - destruct (String.eqb k b'); auto.
  Qed.

  (* ================= 1. reads ================= *)
  Lemma resolve_top : forall (e : env) n o,
    path_of n = [n] -> alookup n (e_inj e) = Some o -> resolve fo e n = Ok (RObj o).
  Proof. intros e n o Hp Ha. unfold resolve. rewrite Hp, Ha. reflexivity. Qed.

  Lemma resolve_field : forall (e : env) n a b p fs ms o,
    path_of n = [a; b] -> alookup a (e_inj e) = Some (HStruct p fs ms) -> flookup fo b fs = Some o ->
    resolve fo e n = Ok (RObj o).
  Proof.
    intros e n a b p fs ms o Hp Ha Hb. unfold resolve. rewrite Hp, Ha.
    cbn [get_field bind]. rewrite Hb. reflexivity.
  Qed.

  Lemma resolve_nested : forall (e : env) n a b c p fs ms p2 fs2 ms2 o,
    path_of n = [a; b; c] -> alookup a (e_inj e) = Some (HStruct p fs ms) ->
    flookup fo b fs = Some (HStruct p2 fs2 ms2) -> flookup fo c fs2 = Some o ->
    resolve fo e n = Ok (RObj o).
  Proof.
    intros e n a b c p fs ms p2 fs2 ms2 o Hp Ha Hb Hc. unfold resolve. rewrite Hp, Ha.
    cbn [get_field bind]. rewrite Hb. cbn [get_field bind]. rewrite Hc. reflexivity.
  Qed.

  Lemma get_value_resolved : forall (e : env) n o,
    resolve fo e n = Ok (RObj o) -> get_value fo e n = Ok (value_of_obj fo o).
  Proof. intros e n o H. unfold get_value. rewrite H. reflexivity. Qed.

  Lemma read_injected_scalar : forall (e : env) n v,
    path_of n = [n] -> alookup n (e_inj e) = Some (HVal v) -> get_value fo e n = Ok v.
  Proof. intros e n v Hp Ha. rewrite (get_value_resolved e n (HVal v)); [reflexivity | apply resolve_top; assumption]. Qed.

  Lemma read_field : forall (e : env) n a b p fs ms v,
    path_of n = [a; b] -> alookup a (e_inj e) = Some (HStruct p fs ms) -> flookup fo b fs = Some (HVal v) ->
    get_value fo e n = Ok v.
  Proof.
    intros e n a b p fs ms v Hp Ha Hb.
    rewrite (get_value_resolved e n (HVal v)); [reflexivity | eapply resolve_field; eassumption].
  Qed.

  Lemma read_nested_field : forall (e : env) n a b c p fs ms p2 fs2 ms2 v,
    path_of n = [a; b; c] -> alookup a (e_inj e) = Some (HStruct p fs ms) ->
    flookup fo b fs = Some (HStruct p2 fs2 ms2) -> flookup fo c fs2 = Some (HVal v) ->
    get_value fo e n = Ok v.
  Proof.
    intros e n a b c p fs ms p2 fs2 ms2 v Hp Ha Hb Hc.
    rewrite (get_value_resolved e n (HVal v)); [reflexivity | eapply resolve_nested; eassumption].
  Qed.

  (* a missing field reads as the invalid Value, without error *)
  Lemma read_missing_field : forall (e : env) n a b p fs ms,
    path_of n = [a; b] -> alookup a (e_inj e) = Some (HStruct p fs ms) -> flookup fo b fs = None ->
    get_value fo e n = Ok VNil.
  Proof.
    intros e n a b p fs ms Hp Ha Hb. unfold get_value, resolve. rewrite Hp, Ha.
    cbn [get_field bind]. rewrite Hb. reflexivity.
  Qed.

  Lemma read_map_string_key : forall (e : env) pos name s p et entries,
    resolve fo e name = Ok (RObj (HMap p TS et entries)) ->
    mapvar_get fo e (mkMV pos name (MKStr s)) =
    Ok (match map_get fo (VStr s) entries with Some v => v | None => zero_of fo et end).
  Proof.
    intros e pos name s p et entries H. unfold mapvar_get. cbn [mv_name mv_pos mv_key].
    rewrite H. reflexivity.
  Qed.

  Lemma read_map_entry : forall (e : env) pos name s p et entries v,
    resolve fo e name = Ok (RObj (HMap p TS et entries)) -> map_get fo (VStr s) entries = Some v ->
    mapvar_get fo e (mkMV pos name (MKStr s)) = Ok v.
  Proof. intros. erewrite read_map_string_key by eassumption. rewrite H0. reflexivity. Qed.

  Lemma read_missing_map_key_is_zero : forall (e : env) pos name s p et entries,
    resolve fo e name = Ok (RObj (HMap p TS et entries)) -> map_get fo (VStr s) entries = None ->
    mapvar_get fo e (mkMV pos name (MKStr s)) = Ok (zero_of fo et).
  Proof. intros. erewrite read_map_string_key by eassumption. rewrite H0. reflexivity. Qed.

  (* an integer literal key on a map[int64]T *)
  Lemma read_map_int_key : forall (e : env) pos name z p et entries,
    resolve fo e name = Ok (RObj (HMap p (TI KI64) et entries)) ->
    mapvar_get fo e (mkMV pos name (MKInt z)) =
    Ok (match map_get fo (VInt KI64 z) entries with Some v => v | None => zero_of fo et end).
  Proof.
    intros e pos name z p et entries H. unfold mapvar_get. cbn [mv_name mv_pos mv_key].
    rewrite H. reflexivity.
  Qed.

  Lemma read_slice_element : forall (e : env) pos name z p isarr et elems v,
    resolve fo e name = Ok (RObj (HSeq p isarr et elems)) ->
    0 <= z -> nth_error elems (Z.to_nat z) = Some v ->
    mapvar_get fo e (mkMV pos name (MKInt z)) = Ok v.
  Proof.
    intros e pos name z p isarr et elems v H Hz Hn. unfold mapvar_get. cbn [mv_name mv_pos mv_key].
    rewrite H. cbn [wrap bind]. destruct (Z.ltb_spec z 0); [lia|]. rewrite Hn. reflexivity.
  Qed.

  Lemma read_slice_in_range : forall (e : env) pos name z p isarr et elems,
    resolve fo e name = Ok (RObj (HSeq p isarr et elems)) ->
    0 <= z < Z.of_nat (length elems) ->
    exists v, nth_error elems (Z.to_nat z) = Some v /\ mapvar_get fo e (mkMV pos name (MKInt z)) = Ok v.
  Proof.
    intros e pos name z p isarr et elems H Hz.
    destruct (nth_error elems (Z.to_nat z)) as [v|] eqn:E.
    - exists v. split; [reflexivity|]. eapply read_slice_element; [eassumption | lia | assumption].
    - apply nth_error_None in E. lia.
  Qed.

  (* ================= 2. the conversion guard ================= *)
  (* the value fits the target: the reflect Set* conversion then keeps the number *)
  Definition representable (t : sty) (v : value) : Prop :=
    match t, v with
    | TI k, VInt _ z | TI k, VUint _ z => in_irange k z = true
    | TI k, VFloat _ f => exists z, f_trunc fo f = Some z /\ in_irange k z = true
    | TU k, VInt _ z | TU k, VUint _ z => in_urange k z = true
    | TU k, VFloat _ f => exists z, f_trunc fo f = Some z /\ in_urange k z = true
    | TF _, VInt _ _ | TF _, VUint _ _ | TF _, VFloat _ _ => True
    | TS, VStr _ => True
    | TB, VBool _ => True
    | _, _ => False
    end.

  (* the value of kind t carrying the same number (float -> integer: the truncation) *)
  Definition converted (t : sty) (v : value) : option value :=
    match t, v with
    | TI k, VInt _ z | TI k, VUint _ z => Some (VInt k z)
    | TI k, VFloat _ f => option_map (VInt k) (f_trunc fo f)
    | TU k, VInt _ z | TU k, VUint _ z => Some (VUint k z)
    | TU k, VFloat _ f => option_map (VUint k) (f_trunc fo f)
    | TF k, VInt _ z | TF k, VUint _ z => Some (VFloat k (f_of_Z fo z))
    | TF k, VFloat _ f => Some (VFloat k f)
    | TS, VStr s => Some (VStr s)
    | TB, VBool b => Some (VBool b)
    | _, _ => None
    end.

  Lemma converted_kind : forall t v nv, converted t v = Some nv -> sty_of fo nv = Some t.
  Proof.
    intros t v nv H. destruct t, v; cbn in H; try discriminate;
      try (injection H as <-; reflexivity);
      destruct (f_trunc fo f); cbn in H; try discriminate; injection H as <-; reflexivity.
  Qed.

  Lemma set_conv_int_int : forall k k' z, in_irange k z = true -> set_conv fo (TI k) (VInt k' z) = Ok (VInt k z).
  Proof. intros k k' z H. cbn [set_conv]. unfold conv_int. rewrite swrap_id by exact H. reflexivity. Qed.
  Lemma set_conv_int_uint : forall k k' z, in_irange k z = true -> set_conv fo (TI k) (VUint k' z) = Ok (VInt k z).
  Proof. intros k k' z H. cbn [set_conv]. unfold conv_int. rewrite swrap_id by exact H. reflexivity. Qed.
  Lemma set_conv_int_float : forall k k' f z,
    f_trunc fo f = Some z -> in_irange k z = true -> set_conv fo (TI k) (VFloat k' f) = Ok (VInt k z).
  Proof. intros k k' f z Hf H. cbn [set_conv]. rewrite Hf. unfold conv_int. rewrite swrap_id by exact H. reflexivity. Qed.
  Lemma set_conv_uint_int : forall k k' z, in_urange k z = true -> set_conv fo (TU k) (VInt k' z) = Ok (VUint k z).
  Proof.
    intros k k' z H. cbn [set_conv]. rewrite (in_urange_nonneg k z H). unfold conv_uint.
    rewrite uwrap_id by exact H. reflexivity.
  Qed.
  Lemma set_conv_uint_uint : forall k k' z, in_urange k z = true -> set_conv fo (TU k) (VUint k' z) = Ok (VUint k z).
  Proof. intros k k' z H. cbn [set_conv]. unfold conv_uint. rewrite uwrap_id by exact H. reflexivity. Qed.
  Lemma set_conv_uint_float : forall k k' f z,
    f_trunc fo f = Some z -> in_urange k z = true -> set_conv fo (TU k) (VFloat k' f) = Ok (VUint k z).
  Proof.
    intros k k' f z Hf H. cbn [set_conv]. rewrite Hf, (in_urange_nonneg k z H). unfold conv_uint.
    rewrite uwrap_id by exact H. reflexivity.
  Qed.
  Lemma set_conv_float_int : forall k k' z, set_conv fo (TF k) (VInt k' z) = Ok (VFloat k (f_of_Z fo z)).
  Proof. reflexivity. Qed.
  Lemma set_conv_float_uint : forall k k' z, set_conv fo (TF k) (VUint k' z) = Ok (VFloat k (f_of_Z fo z)).
  Proof. reflexivity. Qed.
  Lemma set_conv_float_float : forall k k' f, set_conv fo (TF k) (VFloat k' f) = Ok (VFloat k f).
  Proof. reflexivity. Qed.
  Lemma set_conv_string : forall s, set_conv fo TS (VStr s) = Ok (VStr s).
  Proof. reflexivity. Qed.
  Lemma set_conv_bool : forall b, set_conv fo TB (VBool b) = Ok (VBool b).
  Proof. reflexivity. Qed.

  Lemma set_conv_representable_eq : forall t v,
    representable t v -> exists nv, set_conv fo t v = Ok nv /\ converted t v = Some nv.
  Proof.
    intros t v H. destruct t as [k|k|k| |], v as [k' z|k' z|k' f|s|b| |o]; cbn [representable] in H; try contradiction.
    - exists (VInt k z). split; [apply set_conv_int_int; exact H | reflexivity].
    - exists (VInt k z). split; [apply set_conv_int_uint; exact H | reflexivity].
    - destruct H as (z & Hf & H). exists (VInt k z). split; [eapply set_conv_int_float; eassumption|].
      cbn [converted]. rewrite Hf. reflexivity.
    - exists (VUint k z). split; [apply set_conv_uint_int; exact H | reflexivity].
    - exists (VUint k z). split; [apply set_conv_uint_uint; exact H | reflexivity].
    - destruct H as (z & Hf & H). exists (VUint k z). split; [eapply set_conv_uint_float; eassumption|].
      cbn [converted]. rewrite Hf. reflexivity.
    - eexists. split; reflexivity.
    - eexists. split; reflexivity.
    - eexists. split; reflexivity.
    - eexists. split; reflexivity.
    - eexists. split; reflexivity.
  Qed.

  Lemma set_conv_representable : forall t v,
    representable t v ->
    exists nv, set_conv fo t v = Ok nv /\ sty_of fo nv = Some t /\ converted t v = Some nv.
  Proof.
    intros t v H. destruct (set_conv_representable_eq t v H) as (nv & H1 & H2).
    exists nv. split; [exact H1|]. split; [eapply converted_kind; exact H2 | exact H2].
  Qed.

  (* why the guard is needed *)
  Lemma guard_needed_negative_to_unsigned : forall k k' z, z < 0 -> set_conv fo (TU k) (VInt k' z) = Panic.
  Proof. intros k k' z H. cbn [set_conv]. destruct (Z.leb_spec 0 z); [lia | reflexivity]. Qed.
  Lemma guard_needed_string_to_int : forall k s, set_conv fo (TI k) (VStr s) = Panic.
  Proof. reflexivity. Qed.
  Lemma guard_needed_wraps : set_conv fo (TI KI8) (VInt KI64 300) = Ok (VInt KI8 44).
  Proof. reflexivity. Qed.
  Lemma guard_needed_unsigned_wraps : set_conv fo (TU KU8) (VUint KU64 256) = Ok (VUint KU8 0).
  Proof. reflexivity. Qed.
  Lemma guard_needed_nonfinite_float : forall k k' f, f_trunc fo f = None -> set_conv fo (TI k) (VFloat k' f) = Ok (VInt k 0).
  Proof.
    intros k k' f H. cbn [set_conv]. rewrite H. unfold conv_int. rewrite swrap_id; [reflexivity|].
    destruct k; reflexivity.
  Qed.

  (* SetSingleValue agrees with the field conversion on representable values *)
  Lemma set_single_representable_eq : forall t v,
    representable t v -> exists nv, set_single fo t v = Ok nv /\ converted t v = Some nv.
  Proof.
    intros t v H. unfold set_single.
    destruct t as [k|k|k| |], v as [k' z|k' z|k' f|s|b| |o]; cbn [representable] in H; try contradiction;
      cbn [sty_of].
    - destruct (sty_eqb (TI k) (TI k')) eqn:E.
      + apply sty_eqb_eq in E. injection E as <-. eexists. split; reflexivity.
      + unfold conv_int. rewrite swrap_id by exact H. eexists. split; reflexivity.
    - cbn [sty_eqb]. unfold conv_int. rewrite swrap_id by exact H. eexists. split; reflexivity.
    - cbn [sty_eqb]. destruct H as (z & Hf & H). rewrite Hf. unfold conv_int. rewrite swrap_id by exact H.
      eexists. split; [reflexivity|]. cbn [converted]. rewrite Hf. reflexivity.
    - cbn [sty_eqb]. rewrite (in_urange_nonneg k z H). unfold conv_uint. rewrite uwrap_id by exact H.
      eexists. split; reflexivity.
    - destruct (sty_eqb (TU k) (TU k')) eqn:E.
      + apply sty_eqb_eq in E. injection E as <-. eexists. split; reflexivity.
      + unfold conv_uint. rewrite uwrap_id by exact H. eexists. split; reflexivity.
    - cbn [sty_eqb]. destruct H as (z & Hf & H). rewrite Hf, (in_urange_nonneg k z H). unfold conv_uint.
      rewrite uwrap_id by exact H. eexists. split; [reflexivity|]. cbn [converted]. rewrite Hf. reflexivity.
    - cbn [sty_eqb]. eexists. split; reflexivity.
    - cbn [sty_eqb]. eexists. split; reflexivity.
    - destruct (sty_eqb (TF k) (TF k')) eqn:E.
      + apply sty_eqb_eq in E. injection E as <-. eexists. split; reflexivity.
      + eexists. split; reflexivity.
    - cbn [sty_eqb]. eexists. split; reflexivity.
    - cbn [sty_eqb]. eexists. split; reflexivity.
  Qed.

  Lemma set_single_agrees_set_conv : forall t v, representable t v -> set_single fo t v = set_conv fo t v.
  Proof.
    intros t v H. destruct (set_single_representable_eq t v H) as (nv & H1 & H2).
    destruct (set_conv_representable_eq t v H) as (nv' & H1' & H2'). congruence.
  Qed.

  (* outside the guard they differ: SetSingleValue reports an error where the field
     conversion panics, and it never panics at all *)
  Lemma set_single_negative_to_unsigned : forall k k' z, z < 0 -> set_single fo (TU k) (VInt k' z) = Err [].
  Proof.
    intros k k' z H. unfold set_single. cbn [sty_of sty_eqb]. destruct (Z.leb_spec 0 z); [lia | reflexivity].
  Qed.
  Lemma set_single_never_panics : forall t v, set_single fo t v <> Panic.
  Proof.
    intros t v. unfold set_single. destruct (sty_of fo v) as [tv|]; [|discriminate].
    destruct (sty_eqb t tv); [discriminate|].
    destruct t, v; try discriminate;
      try (destruct (f_trunc fo f); try discriminate); destruct (0 <=? _); discriminate.
  Qed.

  (* ================= 3. writes and their frame ================= *)
  Lemma write_field : forall (e : env) n a b fs ms cur t v nv,
    path_of n = [a; b] -> alookup a (e_inj e) = Some (HStruct true fs ms) ->
    flookup fo b fs = Some (HVal cur) -> sty_of fo cur = Some t -> sty_of fo v <> None ->
    set_conv fo t v = Ok nv ->
    set_value fo e n v =
    Ok (mkEnv (aset a (HStruct true (fset fo b (HVal nv) fs) ms) (e_inj e)) (e_loc e) (e_trace e)).
  Proof.
    intros e n a b fs ms cur t v nv Hp Ha Hb Hc Hv Hs. unfold set_value. rewrite Hp, Ha.
    cbn [set_field]. rewrite Hb. cbn [negb].
    destruct (sty_of fo v) as [tv|]; [|congruence]. rewrite Hc, Hs. reflexivity.
  Qed.

  (* a struct injected by value is not addressable: the write is an error, nothing changes *)
  Lemma write_field_by_value_is_error : forall (e : env) n a b fs ms o v,
    path_of n = [a; b] -> alookup a (e_inj e) = Some (HStruct false fs ms) ->
    flookup fo b fs = Some o -> set_value fo e n v = Err [].
  Proof.
    intros e n a b fs ms o v Hp Ha Hb. unfold set_value. rewrite Hp, Ha. cbn [set_field]. rewrite Hb. reflexivity.
  Qed.

  Lemma read_after_write_field : forall (e : env) n a b fs ms cur nv,
    path_of n = [a; b] -> flookup fo b fs = Some cur ->
    get_value fo (mkEnv (aset a (HStruct true (fset fo b (HVal nv) fs) ms) (e_inj e)) (e_loc e) (e_trace e)) n = Ok nv.
  Proof.
    intros e n a b fs ms cur nv Hp Hb. eapply read_field; [exact Hp | cbn [e_inj]; apply alookup_aset_eq |].
    apply flookup_fset_eq. congruence.
  Qed.

  Lemma write_nested_field : forall (e : env) n a b c p fs ms p2 fs2 ms2 cur t v nv,
    path_of n = [a; b; c] -> alookup a (e_inj e) = Some (HStruct p fs ms) ->
    flookup fo b fs = Some (HStruct p2 fs2 ms2) ->
    (if p then true else p2) = true ->
    flookup fo c fs2 = Some (HVal cur) -> sty_of fo cur = Some t -> sty_of fo v <> None ->
    set_conv fo t v = Ok nv ->
    set_value fo e n v =
    Ok (mkEnv (aset a (HStruct p (fset fo b (HStruct p2 (fset fo c (HVal nv) fs2) ms2) fs) ms) (e_inj e))
              (e_loc e) (e_trace e)).
  Proof.
    intros e n a b c p fs ms p2 fs2 ms2 cur t v nv Hp Ha Hb Hset Hc Ht Hv Hs.
    unfold set_value. rewrite Hp, Ha. cbn [get_field bind]. rewrite Hb.
    assert (S : match HStruct p fs ms with HStruct true _ _ => true | _ => p2 end = true).
    { destruct p; [reflexivity | exact Hset]. }
    rewrite S. cbn [set_field]. rewrite Hc. cbn [negb].
    destruct (sty_of fo v) as [tv|]; [|congruence]. rewrite Ht, Hs. reflexivity.
  Qed.

  Lemma write_ptr_scalar : forall (e : env) n t cur v nv,
    path_of n = [n] -> alookup n (e_inj e) = Some (HPtr t cur) -> set_single fo t v = Ok nv ->
    set_value fo e n v = Ok (mkEnv (aset n (HPtr t nv) (e_inj e)) (e_loc e) (e_trace e)).
  Proof. intros e n t cur v nv Hp Ha Hs. unfold set_value. rewrite Hp, Ha, Hs. reflexivity. Qed.

  Lemma write_ptr_scalar_representable : forall (e : env) n t cur v,
    path_of n = [n] -> alookup n (e_inj e) = Some (HPtr t cur) -> representable t v ->
    exists nv, converted t v = Some nv /\
      set_value fo e n v = Ok (mkEnv (aset n (HPtr t nv) (e_inj e)) (e_loc e) (e_trace e)).
  Proof.
    intros e n t cur v Hp Ha Hr. destruct (set_single_representable_eq t v Hr) as (nv & H1 & H2).
    exists nv. split; [exact H2 | eapply write_ptr_scalar; eassumption].
  Qed.

  Lemma write_field_representable : forall (e : env) n a b fs ms cur t v,
    path_of n = [a; b] -> alookup a (e_inj e) = Some (HStruct true fs ms) ->
    flookup fo b fs = Some (HVal cur) -> sty_of fo cur = Some t -> representable t v ->
    exists nv, converted t v = Some nv /\
      set_value fo e n v =
      Ok (mkEnv (aset a (HStruct true (fset fo b (HVal nv) fs) ms) (e_inj e)) (e_loc e) (e_trace e)).
  Proof.
    intros e n a b fs ms cur t v Hp Ha Hb Hc Hr.
    destruct (set_conv_representable_eq t v Hr) as (nv & H1 & H2).
    exists nv. split; [exact H2|]. eapply write_field; try eassumption.
    destruct t, v; cbn in Hr; try contradiction; discriminate.
  Qed.

  (* --- containers --- *)
  Lemma update_obj_top : forall (e : env) name a o,
    path_of name = [a] -> update_obj fo e name o = mkEnv (aset a o (e_inj e)) (e_loc e) (e_trace e).
  Proof. intros e name a o Hp. unfold update_obj. rewrite Hp. reflexivity. Qed.

  Lemma update_obj_field : forall (e : env) name a b p fs ms o,
    path_of name = [a; b] -> alookup a (e_inj e) = Some (HStruct p fs ms) ->
    update_obj fo e name o = mkEnv (aset a (HStruct p (fset fo b o fs) ms) (e_inj e)) (e_loc e) (e_trace e).
  Proof. intros e name a b p fs ms o Hp Ha. unfold update_obj. rewrite Hp, Ha. reflexivity. Qed.

  Lemma update_obj_frame : forall (e : env) name o,
    e_loc (update_obj fo e name o) = e_loc e /\ e_trace (update_obj fo e name o) = e_trace e.
  Proof.
    intros e name o. unfold update_obj.
    destruct (path_of name) as [|a [|b [|c [|d l]]]]; try (split; reflexivity).
    - destruct (alookup a (e_inj e)) as [[ | |p fs ms| | | ]|]; split; reflexivity.
    - destruct (alookup a (e_inj e)) as [[ | |p fs ms| | | ]|]; try (split; reflexivity).
      destruct (flookup fo b fs) as [[ | |p2 fs2 ms2| | | ]|]; split; reflexivity.
  Qed.

  Lemma write_map_entry : forall (e : env) pos name s p et entries v wv,
    resolve fo e name = Ok (RObj (HMap p TS et entries)) ->
    wanted fo et v = Ok wv -> assignable fo et wv = true ->
    mapvar_set fo e (mkMV pos name (MKStr s)) v =
    Ok (update_obj fo e name (HMap p TS et (map_set fo (VStr s) wv entries))).
  Proof.
    intros e pos name s p et entries v wv H Hw Ha. unfold mapvar_set. cbn [mv_name mv_key].
    rewrite H. cbn [bind sty_eqb]. rewrite Hw. cbn [bind]. rewrite Ha. reflexivity.
  Qed.

  Lemma write_map_entry_top : forall (e : env) pos a s p et entries v wv,
    path_of a = [a] -> alookup a (e_inj e) = Some (HMap p TS et entries) ->
    wanted fo et v = Ok wv -> assignable fo et wv = true ->
    mapvar_set fo e (mkMV pos a (MKStr s)) v =
    Ok (mkEnv (aset a (HMap p TS et (map_set fo (VStr s) wv entries)) (e_inj e)) (e_loc e) (e_trace e)).
  Proof.
    intros e pos a s p et entries v wv Hp Ha Hw Has.
    erewrite write_map_entry; [| apply resolve_top; eassumption | eassumption | assumption].
    rewrite (update_obj_top e a a) by exact Hp. reflexivity.
  Qed.

  Lemma write_slice_element : forall (e : env) pos name z p isarr et elems v wv,
    resolve fo e name = Ok (RObj (HSeq p isarr et elems)) ->
    0 <= z < Z.of_nat (length elems) ->
    wanted fo et v = Ok wv -> assignable fo et wv = true -> (isarr && negb p)%bool = false ->
    mapvar_set fo e (mkMV pos name (MKInt z)) v =
    Ok (update_obj fo e name (HSeq p isarr et (list_set (Z.to_nat z) wv elems))).
  Proof.
    intros e pos name z p isarr et elems v wv H Hz Hw Ha Harr. unfold mapvar_set. cbn [mv_name mv_key].
    rewrite H. cbn [bind]. destruct (Z.ltb_spec z 0); [lia|]. rewrite Hw. cbn [bind].
    destruct (Z.leb_spec (Z.of_nat (length elems)) z); [lia|]. rewrite Ha, Harr. reflexivity.
  Qed.

  Lemma write_slice_element_top : forall (e : env) pos a z p isarr et elems v wv,
    path_of a = [a] -> alookup a (e_inj e) = Some (HSeq p isarr et elems) ->
    0 <= z < Z.of_nat (length elems) ->
    wanted fo et v = Ok wv -> assignable fo et wv = true -> (isarr && negb p)%bool = false ->
    mapvar_set fo e (mkMV pos a (MKInt z)) v =
    Ok (mkEnv (aset a (HSeq p isarr et (list_set (Z.to_nat z) wv elems)) (e_inj e)) (e_loc e) (e_trace e)).
  Proof.
    intros e pos a z p isarr et elems v wv Hp Ha Hz Hw Has Harr.
    erewrite write_slice_element; [| apply resolve_top; eassumption | eassumption.. ].
    rewrite (update_obj_top e a a) by exact Hp. reflexivity.
  Qed.

  (* a value of the element type is stored unchanged *)
  Lemma wanted_same_type : forall t v, sty_of fo v = Some t -> wanted fo t v = Ok v /\ assignable fo t v = true.
  Proof.
    intros t v H. unfold wanted, assignable. rewrite H, sty_eqb_refl. split; reflexivity.
  Qed.

  (* only that one entry / element changes *)
  Lemma map_get_set_same : forall s v m, map_get fo (VStr s) (map_set fo (VStr s) v m) = Some v.
  Proof.
    intros s v. induction m as [|[k w] m IH]; cbn [map_set map_get].
    - cbn [value_eqb]. rewrite String.eqb_refl. reflexivity.
    - destruct (value_eqb fo (VStr s) k) eqn:E; cbn [map_get]; rewrite E; [reflexivity | exact IH].
  Qed.

  Lemma map_get_set_other : forall s s' v m, s' <> s ->
    map_get fo (VStr s') (map_set fo (VStr s) v m) = map_get fo (VStr s') m.
  Proof.
    intros s s' v m Hn. induction m as [|[k w] m IH]; cbn [map_set map_get].
    - cbn [value_eqb]. destruct (String.eqb_spec s' s); congruence.
    - destruct (value_eqb fo (VStr s) k) eqn:E; cbn [map_get].
      + destruct k; cbn [value_eqb] in E; try discriminate.
        apply String.eqb_eq in E. subst s0. cbn [value_eqb].
        destruct (String.eqb_spec s' s); congruence.
      + rewrite IH. reflexivity.
  Qed.

  Lemma list_set_length : forall A i (x : A) l, length (list_set i x l) = length l.
  Proof. intros A i x l. revert i. induction l as [|h t IH]; intros [|i]; cbn; auto. Qed.

  Lemma list_set_same : forall A i (x : A) l, (i < length l)%nat -> nth_error (list_set i x l) i = Some x.
  Proof.
    intros A i x l. revert i. induction l as [|h t IH]; intros [|i] H; cbn in *; try lia; auto.
    apply IH. lia.
  Qed.

  Lemma list_set_other : forall A i j (x : A) l, i <> j -> nth_error (list_set i x l) j = nth_error l j.
  Proof.
    intros A i j x l. revert i j. induction l as [|h t IH]; intros [|i] [|j] H; cbn; auto; try congruence.
  Qed.

  (* ================= 4. calls ================= *)
  Lemma num_conv_int_from_int : forall k k' z, in_irange k z = true -> num_conv fo (TI k) (VInt k' z) = Ok (VInt k z).
  Proof. intros k k' z H. cbn [num_conv]. unfold conv_int. rewrite swrap_id by exact H. reflexivity. Qed.
  Lemma num_conv_int_from_uint : forall k k' z, in_irange k z = true -> num_conv fo (TI k) (VUint k' z) = Ok (VInt k z).
  Proof. intros k k' z H. cbn [num_conv]. unfold conv_int. rewrite swrap_id by exact H. reflexivity. Qed.
  Lemma num_conv_int_from_float : forall k k' f z,
    f_trunc fo f = Some z -> in_irange k z = true -> num_conv fo (TI k) (VFloat k' f) = Ok (VInt k z).
  Proof. intros k k' f z Hf H. cbn [num_conv]. rewrite Hf. unfold conv_int. rewrite swrap_id by exact H. reflexivity. Qed.
  Lemma num_conv_uint_from_int : forall k k' z, in_urange k z = true -> num_conv fo (TU k) (VInt k' z) = Ok (VUint k z).
  Proof. intros k k' z H. cbn [num_conv]. unfold conv_uint. rewrite uwrap_id by exact H. reflexivity. Qed.
  Lemma num_conv_uint_from_uint : forall k k' z, in_urange k z = true -> num_conv fo (TU k) (VUint k' z) = Ok (VUint k z).
  Proof. intros k k' z H. cbn [num_conv]. unfold conv_uint. rewrite uwrap_id by exact H. reflexivity. Qed.
  Lemma num_conv_uint_from_float : forall k k' f z,
    f_trunc fo f = Some z -> in_urange k z = true -> num_conv fo (TU k) (VFloat k' f) = Ok (VUint k z).
  Proof. intros k k' f z Hf H. cbn [num_conv]. rewrite Hf. unfold conv_uint. rewrite uwrap_id by exact H. reflexivity. Qed.
  Lemma num_conv_float_from_int : forall k k' z, num_conv fo (TF k) (VInt k' z) = Ok (VFloat k (f_of_Z fo z)).
  Proof. reflexivity. Qed.
  Lemma num_conv_float_from_uint : forall k k' z, num_conv fo (TF k) (VUint k' z) = Ok (VFloat k (f_of_Z fo z)).
  Proof. reflexivity. Qed.
  Lemma num_conv_float_from_float : forall k k' f, num_conv fo (TF k) (VFloat k' f) = Ok (VFloat k f).
  Proof. reflexivity. Qed.
  Lemma num_conv_string_param : forall v, num_conv fo TS v = Ok v.
  Proof. reflexivity. Qed.
  Lemma num_conv_bool_param : forall v, num_conv fo TB v = Ok v.
  Proof. reflexivity. Qed.

  (* on representable numeric arguments the parameter conversion keeps the number *)
  Lemma num_conv_representable : forall t v,
    representable t v -> exists nv, num_conv fo t v = Ok nv /\ converted t v = Some nv.
  Proof.
    intros t v H. destruct t as [k|k|k| |], v as [k' z|k' z|k' f|s|b| |o]; cbn [representable] in H; try contradiction.
    - eexists. split; [apply num_conv_int_from_int; exact H | reflexivity].
    - eexists. split; [apply num_conv_int_from_uint; exact H | reflexivity].
    - destruct H as (z & Hf & H). eexists. split; [eapply num_conv_int_from_float; eassumption|].
      cbn [converted]. rewrite Hf. reflexivity.
    - eexists. split; [apply num_conv_uint_from_int; exact H | reflexivity].
    - eexists. split; [apply num_conv_uint_from_uint; exact H | reflexivity].
    - destruct H as (z & Hf & H). eexists. split; [eapply num_conv_uint_from_float; eassumption|].
      cbn [converted]. rewrite Hf. reflexivity.
    - eexists. split; reflexivity.
    - eexists. split; reflexivity.
    - eexists. split; reflexivity.
    - eexists. split; reflexivity.
    - eexists. split; reflexivity.
  Qed.

  (* the conversion is positional: the i-th received argument is the conversion of the i-th
     supplied one to the i-th parameter kind; length and order are preserved *)
  Lemma convert_args_length : forall ps (vs args : list value),
    convert_args fo ps vs = Ok args -> length args = length vs /\ (length ps <= length vs)%nat.
  Proof.
    induction ps as [|t ps IH]; intros vs args H; cbn [convert_args] in H.
    - injection H as <-. split; [reflexivity | cbn; lia].
    - destruct vs as [|v vs]; [discriminate|].
      destruct (num_conv fo t v) as [v'| |]; try discriminate. cbn [bind] in H.
      destruct (convert_args fo ps vs) as [r| |] eqn:E; try discriminate. cbn [bind] in H.
      injection H as <-. destruct (IH vs r E) as [L1 L2]. cbn [length]. split; lia.
  Qed.

  Lemma convert_args_nth : forall ps (vs args : list value),
    convert_args fo ps vs = Ok args ->
    forall i t v, nth_error ps i = Some t -> nth_error vs i = Some v ->
    exists v', num_conv fo t v = Ok v' /\ nth_error args i = Some v'.
  Proof.
    induction ps as [|t ps IH]; intros vs args H i t0 v0 Hp Hv; cbn [convert_args] in H.
    - destruct i; discriminate.
    - destruct vs as [|v vs]; [discriminate|].
      destruct (num_conv fo t v) as [v'| |] eqn:N; try discriminate. cbn [bind] in H.
      destruct (convert_args fo ps vs) as [r| |] eqn:E; try discriminate. cbn [bind] in H.
      injection H as <-. destruct i as [|i]; cbn [nth_error] in *.
      + injection Hp as <-. injection Hv as <-. exists v'. split; [exact N | reflexivity].
      + eapply IH; eassumption.
  Qed.

  (* arguments beyond the declared parameters are passed through untouched (the Call then panics) *)
  Lemma convert_args_extra : forall ps (vs args : list value),
    convert_args fo ps vs = Ok args ->
    forall i, (length ps <= i)%nat -> nth_error args i = nth_error vs i.
  Proof.
    induction ps as [|t ps IH]; intros vs args H i Hi; cbn [convert_args] in H.
    - injection H as <-. reflexivity.
    - destruct vs as [|v vs]; [discriminate|].
      destruct (num_conv fo t v) as [v'| |] eqn:N; try discriminate. cbn [bind] in H.
      destruct (convert_args fo ps vs) as [r| |] eqn:E; try discriminate. cbn [bind] in H.
      injection H as <-. destruct i as [|i]; cbn [length] in Hi; [lia|]. cbn [nth_error].
      eapply IH; [eassumption | lia].
  Qed.

  Definition after_call (e : env) (id : string) (args : list value) : env :=
    mkEnv (e_inj e) (e_loc e) (e_trace e ++ [(id, args)]).

  Lemma call_converts_arguments : forall (e : env) id ps beh vs args,
    convert_args fo ps vs = Ok args -> length args = length ps ->
    forallb (fun tv => assignable fo (fst tv) (snd tv)) (combine ps args) = true ->
    invoke fo e (mkF id ps beh) vs =
    match beh with
    | BNone => Ok (VNil, after_call e id args)
    | BEcho i => Ok (nth i args VNil, after_call e id args)
    | BPanic => Panic
    | BConst v => Ok (v, after_call e id args)
    end.
  Proof.
    intros e id ps beh vs args Hc Hl Hf. unfold invoke. cbn [f_params f_id f_beh].
    rewrite Hc. cbn [bind]. rewrite Hl, Nat.eqb_refl, Hf. cbn [negb]. destruct beh; reflexivity.
  Qed.

  Lemma call_echo_first : forall (e : env) id ps vs a0 rest,
    convert_args fo ps vs = Ok (a0 :: rest) -> length (a0 :: rest) = length ps ->
    forallb (fun tv => assignable fo (fst tv) (snd tv)) (combine ps (a0 :: rest)) = true ->
    invoke fo e (mkF id ps (BEcho 0)) vs = Ok (a0, after_call e id (a0 :: rest)).
  Proof. intros. erewrite call_converts_arguments by eassumption. reflexivity. Qed.

  (* a well-typed call: numeric arguments for numeric parameters, strings for strings, bools
     for bools, as many as declared.  Then the checks of reflect.Call pass. *)
  Definition param_ok (t : sty) (v : value) : Prop :=
    match t, v with
    | (TI _ | TU _ | TF _), (VInt _ _ | VUint _ _ | VFloat _ _) => True
    | TS, VStr _ => True
    | TB, VBool _ => True
    | _, _ => False
    end.

  Lemma num_conv_param_ok : forall t v, param_ok t v -> exists v', num_conv fo t v = Ok v' /\ assignable fo t v' = true.
  Proof.
    intros t v H. destruct t as [k|k|k| |], v as [k' z|k' z|k' f|s|b| |o]; cbn [param_ok] in H; try contradiction;
      cbn [num_conv]; try (destruct (f_trunc fo f));
      eexists; (split; [reflexivity|]); unfold assignable, conv_int, conv_uint; cbn [sty_of]; apply sty_eqb_refl.
  Qed.

  Lemma convert_args_well_typed : forall ps (vs : list value),
    Forall2 param_ok ps vs ->
    exists args, convert_args fo ps vs = Ok args /\ length args = length ps /\
      forallb (fun tv => assignable fo (fst tv) (snd tv)) (combine ps args) = true.
  Proof.
    intros ps vs H. induction H as [|t v ps vs Htv _ IH].
    - exists []. repeat split.
    - destruct IH as (args & Hc & Hl & Hf). destruct (num_conv_param_ok t v Htv) as (v' & Hn & Ha).
      exists (v' :: args). cbn [convert_args]. rewrite Hn. cbn [bind]. rewrite Hc. cbn [bind].
      split; [reflexivity|]. split; [cbn [length]; lia|].
      cbn [combine forallb fst snd]. rewrite Ha, Hf. reflexivity.
  Qed.

  Lemma call_well_typed : forall (e : env) id ps beh vs,
    Forall2 param_ok ps vs ->
    exists args, convert_args fo ps vs = Ok args /\
      invoke fo e (mkF id ps beh) vs =
      match beh with
      | BNone => Ok (VNil, after_call e id args)
      | BEcho i => Ok (nth i args VNil, after_call e id args)
      | BPanic => Panic
      | BConst v => Ok (v, after_call e id args)
      end.
  Proof.
    intros e id ps beh vs H. destruct (convert_args_well_typed ps vs H) as (args & Hc & Hl & Hf).
    exists args. split; [exact Hc | apply call_converts_arguments; assumption].
  Qed.

  (* a function name is looked up among the injected objects first *)
  Lemma call_injected_function : forall (e : env) f fd vs,
    path_of f = [f] -> alookup f (e_inj e) = Some (HFunc fd) ->
    exec_call fo e CFunc f vs = invoke fo e fd vs.
  Proof. intros e f fd vs Hp Ha. unfold exec_call. rewrite Hp, Ha. reflexivity. Qed.

  Lemma call_method : forall (e : env) n a m p fs ms fd vs,
    path_of n = [a; m] -> alookup a (e_inj e) = Some (HStruct p fs ms) -> find_method fo ms m = Some fd ->
    exec_call fo e CMethod n vs = invoke fo e fd vs.
  Proof. intros e n a m p fs ms fd vs Hp Ha Hm. unfold exec_call. rewrite Hp, Ha, Hm. reflexivity. Qed.

  Lemma call_unknown_function_is_error : forall (e : env) f vs,
    path_of f = [f] -> alookup f (e_inj e) = None -> alookup f (e_loc e) = None ->
    exec_call fo e CFunc f vs = Err [].
  Proof. intros e f vs Hp Ha Hl. unfold exec_call. rewrite Hp, Ha, Hl. reflexivity. Qed.

  (* ================= 5. injected names shadow locals ================= *)
  Lemma injected_name_shadows_local : forall (e : env) n o,
    path_of n = [n] -> alookup n (e_inj e) = Some o -> get_value fo e n = Ok (value_of_obj fo o).
  Proof. intros e n o Hp Ha. apply get_value_resolved, resolve_top; assumption. Qed.

  Lemma set_injected_keeps_locals : forall (e : env) n v,
    path_of n = [n] -> alookup n (e_inj e) <> None ->
    (exists c, set_value fo e n v = Err c) \/
    (exists e', set_value fo e n v = Ok e' /\ e_loc e' = e_loc e /\ e_trace e' = e_trace e).
  Proof.
    intros e n v Hp Ha. unfold set_value. rewrite Hp.
    destruct (alookup n (e_inj e)) as [o|]; [|congruence].
    destruct o as [w|t cur|p fs ms|p kt et en|p isarr et el|f];
      try (left; eexists; reflexivity);
      try (destruct p; left; eexists; reflexivity).
    pose proof (set_single_never_panics t v) as NP.
    destruct (set_single fo t v) as [nv|c|]; [|left; eexists; reflexivity|congruence].
    right. eexists. split; [reflexivity|]. split; reflexivity.
  Qed.

  (* in general: a successful SetValue changes the locals only for a simple, non-injected name *)
  Lemma set_value_locals : forall (e : env) n v e',
    set_value fo e n v = Ok e' ->
    e_loc e' = e_loc e \/
    (exists a, path_of n = [a] /\ alookup a (e_inj e) = None /\ e_inj e' = e_inj e /\ e_loc e' = aset a v (e_loc e)).
  Proof.
    intros e n v e' H. unfold set_value in H.
    destruct (path_of n) as [|a [|b [|c [|d l]]]]; try discriminate.
    - destruct (alookup a (e_inj e)) as [o|] eqn:Ha.
      + left. destruct o as [w|t cur|p fs ms|p kt et en|p isarr et el|f]; try discriminate;
          try (destruct p; discriminate).
        destruct (set_single fo t v); try discriminate. injection H as <-. reflexivity.
      + right. injection H as <-. exists a. repeat split; try reflexivity; exact Ha.
    - left. destruct (alookup a (e_inj e)) as [o|]; [|discriminate].
      destruct (set_field fo o b v); try discriminate. injection H as <-. reflexivity.
    - left. destruct (alookup a (e_inj e)) as [o|]; [|discriminate].
      destruct (get_field fo o b) as [[ob|]| |]; try discriminate. cbn [bind] in H.
      destruct ob as [w|t cur|p2 fs2 ms2|p kt et en|p isarr et el|f]; try discriminate.
      destruct (set_field fo _ c v) as [ob'| |]; try discriminate. cbn [bind] in H.
      destruct ob'; try discriminate. destruct o; try discriminate. injection H as <-. reflexivity.
  Qed.
End StoreFacts.
