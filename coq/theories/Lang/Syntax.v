(* Lang/Syntax.v — abstract syntax of rule bodies: one constructor per grammar alternative
   of internal/iantlr/gengine.g4, which is also one node shape of the tree the listener
   builds (internal/base/*.go).  Nodes carry the source position (line, column) that the
   listener copies from the start token (SourceCode) where an error message cites it. *)
From Coq Require Import String List ZArith Bool.
Import ListNotations.

Definition pos := (nat * nat)%type.          (* LineNum, Column *)

Inductive aop := OAdd | OSub | OMul | ODiv.
Inductive cop := CEq | CNe | CGt | CLt | CGe | CLe.
Inductive lop := LAnd | LOr.
Inductive asg := AsSet (* = *) | AsDef (* := *) | AsAdd | AsSub | AsMul | AsDiv.

Inductive const :=
| KInt (z : Z) | KReal (m e : Z) (* m * 2^e *) | KStr (s : string) | KBool (b : bool)
| KAtName | KAtId | KAtDesc | KAtSal.

Inductive mkey := MKInt (z : Z) | MKStr (s : string) | MKVar (n : string).
Record mapvar := mkMV { mv_pos : pos; mv_name : string; mv_key : mkey }.

Inductive ckind := CFunc | CMethod | CThree.   (* f(..) | a.f(..) | a.b.f(..) *)

Inductive atom :=
| AVar (n : string)                           (* SIMPLENAME | DOTTEDNAME | DOUBLEDOTTEDNAME *)
| AConst (c : const)
| ACall (c : call)
| AMapVar (m : mapvar)
with call := Call (k : ckind) (p : pos) (name : string) (a : args)
with args := ANil | ACons (x : arg) (rest : args)
with arg :=
| GConst (c : const) | GVar (n : string) | GCall (c : call) | GMapVar (m : mapvar) | GExpr (e : expr)
with mexpr :=
| MAtom (p : pos) (a : atom)
| MBin (p : pos) (o : aop) (l r : mexpr)
| MParen (p : pos) (m : mexpr)
with expr :=
| EMath (p : pos) (m : mexpr)
| ECmp (p : pos) (o : cop) (l r : expr)
| ELogic (p : pos) (o : lop) (l r : expr)
| EAtom (p : pos) (neg : bool) (a : atom)      (* notOperator? expressionAtom *)
| EParen (p : pos) (neg : bool) (e : expr).    (* notOperator? ( expression ) *)

Inductive target := TVar (n : string) | TMap (m : mapvar).
Inductive rhs := RMath (m : mexpr) | RExpr (e : expr).
Record assignment := mkAsg { as_pos : pos; as_target : target; as_op : asg; as_rhs : rhs }.

Inductive cchild := CCAsg (a : assignment) | CCCall (c : call).

Inductive stmt :=
| SAssign (a : assignment)
| SCall (c : call)
| SIf (c : expr) (th : block) (elifs : eliflist) (el : option block)
| SFor (p : pos) (init : assignment) (c : expr) (step : assignment) (body : block)
| SForRange (p : pos) (key : string) (coll : string) (body : block)
| SBreak
| SContinue
| SConc (children : list cchild)
with block := Block (ss : stmts) (ret : option (option expr))   (* statement* returnStmt? *)
with stmts := SNil | SCons (s : stmt) (rest : stmts)
with eliflist := ENil | ECons (c : expr) (b : block) (rest : eliflist).

Record rule_meta := mkMeta { m_name : string; m_desc : string; m_sal : Z }.
Record rule := mkRule { r_meta : rule_meta; r_body : block }.
