(* Lang/ReaderCheck.v — checker for the reader model: decidable equality of trees, and the comparison of
   `read_text` with what the implementation did on the same text (the listener tree as rendered by the
   driver, or just the verdict accept / reject).  Definitions only; evaluated by generated case files. *)
From Coq Require Import Ascii String List Arith Bool ZArith.
From GV Require Import Lang.Syntax Lang.Lexer Lang.Reader.
Import ListNotations.

Definition pos_eq_dec : forall a b : pos, {a = b} + {a <> b}.
Proof. decide equality; apply Nat.eq_dec. Defined.
Definition const_eq_dec : forall a b : const, {a = b} + {a <> b}.
Proof. decide equality; try apply Z.eq_dec; try apply string_dec; apply bool_dec. Defined.
Definition mkey_eq_dec : forall a b : mkey, {a = b} + {a <> b}.
Proof. decide equality; try apply Z.eq_dec; apply string_dec. Defined.
Definition mapvar_eq_dec : forall a b : mapvar, {a = b} + {a <> b}.
Proof. decide equality; try apply mkey_eq_dec; try apply string_dec; apply pos_eq_dec. Defined.

Fixpoint atom_eq_dec (a b : atom) {struct a} : {a = b} + {a <> b}
with call_eq_dec (a b : call) {struct a} : {a = b} + {a <> b}
with args_eq_dec (a b : args) {struct a} : {a = b} + {a <> b}
with arg_eq_dec (a b : arg) {struct a} : {a = b} + {a <> b}
with mexpr_eq_dec (a b : mexpr) {struct a} : {a = b} + {a <> b}
with expr_eq_dec (a b : expr) {struct a} : {a = b} + {a <> b}.
Proof.
  all: decide equality; try apply string_dec; try apply pos_eq_dec; try apply const_eq_dec; try apply mapvar_eq_dec; try apply bool_dec;
    decide equality.
Defined.

Definition target_eq_dec : forall a b : target, {a = b} + {a <> b}.
Proof. decide equality; try apply string_dec; apply mapvar_eq_dec. Defined.
Definition rhs_eq_dec : forall a b : rhs, {a = b} + {a <> b}.
Proof. decide equality; try apply mexpr_eq_dec; apply expr_eq_dec. Defined.
Definition assignment_eq_dec : forall a b : assignment, {a = b} + {a <> b}.
Proof. decide equality; try apply rhs_eq_dec; try apply target_eq_dec; try apply pos_eq_dec; decide equality. Defined.
Definition cchild_eq_dec : forall a b : cchild, {a = b} + {a <> b}.
Proof. decide equality; try apply assignment_eq_dec; apply call_eq_dec. Defined.

Fixpoint stmt_eq_dec (a b : stmt) {struct a} : {a = b} + {a <> b}
with block_eq_dec (a b : block) {struct a} : {a = b} + {a <> b}
with stmts_eq_dec (a b : stmts) {struct a} : {a = b} + {a <> b}
with eliflist_eq_dec (a b : eliflist) {struct a} : {a = b} + {a <> b}.
Proof.
  all: decide equality; try apply assignment_eq_dec; try apply call_eq_dec; try apply expr_eq_dec; try apply string_dec; try apply pos_eq_dec;
    try (apply list_eq_dec; apply cchild_eq_dec).
  all: decide equality; try apply expr_eq_dec.
  all: decide equality; try apply expr_eq_dec.
Defined.

Definition meta_eq_dec : forall a b : rule_meta, {a = b} + {a <> b}.
Proof. decide equality; try apply Z.eq_dec; apply string_dec. Defined.
Definition rule_eq_dec : forall a b : rule, {a = b} + {a <> b}.
Proof. decide equality; try apply block_eq_dec; apply meta_eq_dec. Defined.
Definition rules_eqb (a b : list rule) : bool := if list_eq_dec rule_eq_dec a b then true else false.

(* what the implementation did with the text *)
Inductive expectation :=
| XTree (rs : list rule)
| XMeta (ms : list rule_meta)      (* accepted, and these are the installed rules' names, descriptions and saliences (any order) *)
| XAccept | XReject.

Definition meta_eqb (a b : rule_meta) : bool := if meta_eq_dec a b then true else false.
Definition metas_agree (rs : list rule) (ms : list rule_meta) : bool :=
  Nat.eqb (length rs) (length ms) && forallb (fun m => existsb (fun r => meta_eqb (r_meta r) m) rs) ms.
Record rcase := mkRC { rc_id : nat; rc_text : string; rc_reals : reals_t; rc_expect : expectation }.

(* 0 agree; 1 tree differs; 2 the model accepts a text the builder rejects; 3 the model rejects a text the builder
   accepts; 4 out of fuel; 9 outside the model domain (not compared, counted) *)
Definition rcheck (c : rcase) : nat :=
  match read_text (rc_reals c) (rc_text c), rc_expect c with
  | ROk rs, XTree ex => if rules_eqb rs ex then 0 else 1
  | ROk rs, XMeta ms => if metas_agree rs ms then 0 else 1
  | ROk _, XAccept => 0
  | ROk _, XReject => 2
  | RErr, XReject => 0
  | RErr, _ => 3
  | RUnsup, _ => 9
  | RFuel, _ => 4
  end.

Fixpoint rmismatches (cs : list rcase) : list (nat * nat) :=
  match cs with
  | [] => []
  | c :: r => match rcheck c with 0 | 9 => rmismatches r | n => (rc_id c, n) :: rmismatches r end
  end.
Definition runsup (cs : list rcase) : nat := length (filter (fun c => Nat.eqb (rcheck c) 9) cs).

(* a text given by its character codes (texts with bytes that cannot be written inside a Coq string literal) *)
Definition sb (l : list nat) : string := string_of_list_ascii (map ascii_of_nat l).
