(* Lang/OpTable.v — T5: the arithmetic functions of internal/core/math.go as DATA.

   core.Add / Sub / Mul / Div are decision tables over the reflect.Kind names of the two operands.  The translator
   `xlate ops` (harness/cmd/xlate/ops.go) turns each of them, statement by statement, into a `gfun` (gen/Gen_Ops.v).
   This file gives those tables a meaning (`run_gfun`: Go's typed arithmetic on int64 / uint64 / float64 / string, the
   reflect accessors that panic on a value of the wrong kind, the kind-name tests), states what it means for a table to
   AGREE with the hand-written operator model of Lang/Sem.v (`table_agrees`), and provides the tactic that proves it.
   The per-run obligation (obligations/GenOpsOk.v) is `table_agrees gen_X OX` for the four generated tables: a theorem
   about every pair of operand values, re-proved against what the source says on every run.

   Definitions, the tactic, and the same statement for the tables as they were read from the repaired pinned tree
   (hand_Add .. hand_Div: non-vacuity, and what a diff is printed against when a generated table changes). *)
From Coq Require Import Ascii String List ZArith Bool Lia.
From GV Require Import Lang.Value Lang.Syntax Lang.Store Lang.Sem.
Import ListNotations.
Local Open Scope Z_scope.

Inductive ktest := KEq (s : string) | KPre (s : string).     (* kind == s  |  strings.HasPrefix(kind, s) *)
Inductive gacc := AInt | AUint | AFloat | AStr.              (* v.Int() v.Uint() v.Float() v.String() *)
Inductive gty := TInt64 | TUint64 | TFloat64.
Inductive gbop := GAdd | GSub | GMul | GDiv.
Inductive gexp :=
| GGet (rhs : bool) (ac : gacc)          (* accessor on a (false) or b (true) *)
| GConv (t : gty) (e : gexp)             (* int64(e) uint64(e) float64(e) *)
| GBin (o : gbop) (l r : gexp)
| GConcat (l r : gexp).                  (* fmt.Sprintf("%s%s", l, r) *)
Inductive gstmt :=
| GCase (ta tb : ktest) (e : gexp)       (* if ta(akind) { if tb(bkind) { return e, nil } } *)
| GZero (tb : ktest) (ac : gacc).        (* if tb(bkind) { v := b.ac(); if v == 0 { return nil, error } } *)
Definition gfun := list gstmt.           (* ... followed by `return nil, error` *)

(* strings.HasPrefix(s, p), with boolean character tests (String.prefix decides with ascii_dec, which computes slowly) *)
Fixpoint has_prefix (p s : string) : bool :=
  match p, s with
  | EmptyString, _ => true
  | String c p', String d s' => Ascii.eqb c d && has_prefix p' s'
  | String _ _, EmptyString => false
  end.

Definition ktest_holds (t : ktest) (kind : string) : bool :=
  match t with KEq s => String.eqb kind s | KPre s => has_prefix s kind end.

(* what remains of a table once the kinds of the operands are known *)
Inductive plan := PErr | PRet (e : gexp) | PZero (ac : gacc) (k : plan).
Fixpoint select (g : gfun) (ka kb : string) : plan :=
  match g with
  | [] => PErr
  | GCase ta tb e :: g' => if ktest_holds ta ka && ktest_holds tb kb then PRet e else select g' ka kb
  | GZero tb ac :: g' => if ktest_holds tb kb then PZero ac (select g' ka kb) else select g' ka kb
  end.

Section OpTable.
  Variable fo : float_ops.
  Notation value := (value fo).

  (* reflect.Kind.String() *)
  Definition kind_name (v : value) : string :=
    match v with
    | VInt KI _ => "int" | VInt KI8 _ => "int8" | VInt KI16 _ => "int16" | VInt KI32 _ => "int32" | VInt KI64 _ => "int64"
    | VUint KU _ => "uint" | VUint KU8 _ => "uint8" | VUint KU16 _ => "uint16" | VUint KU32 _ => "uint32" | VUint KU64 _ => "uint64"
    | VFloat KF32 _ => "float32" | VFloat KF64 _ => "float64"
    | VStr _ => "string" | VBool _ => "bool" | VNil => "invalid" | VOther k => k
    end%string.

  (* a typed Go value of the four result types *)
  Inductive gval := GI (z : Z) | GU (z : Z) | GF (f : fl fo) | GS (s : string).
  Inductive gres := GOk (v : gval) | GPanic | GIll.     (* GIll: Go would not compile it (operand types differ) *)

  Definition gget (v : value) (ac : gacc) : gres :=
    match ac, v with
    | AInt, VInt _ z => GOk (GI z)
    | AUint, VUint _ z => GOk (GU z)
    | AFloat, VFloat _ f => GOk (GF f)
    | AStr, VStr s => GOk (GS s)
    | _, _ => GPanic                    (* reflect: call of Value.Int on ... Value  (String() of a non-string is outside the tables' use) *)
    end.

  Definition gconv (t : gty) (v : gval) : gres :=
    match t, v with
    | TInt64, GI z => GOk (GI z)
    | TInt64, GU z => GOk (GI (wrap64 z))
    | TUint64, GU z => GOk (GU z)
    | TUint64, GI z => GOk (GU (uwrap64 z))
    | TFloat64, GI z | TFloat64, GU z => GOk (GF (f_of_Z fo z))
    | TFloat64, GF f => GOk (GF f)
    | _, _ => GIll
    end.

  Definition gbin (o : gbop) (x y : gval) : gres :=
    match x, y with
    | GI a, GI b =>
      match o with
      | GAdd => GOk (GI (wrap64 (a + b))) | GSub => GOk (GI (wrap64 (a - b))) | GMul => GOk (GI (wrap64 (a * b)))
      | GDiv => if b =? 0 then GPanic else GOk (GI (wrap64 (Z.quot a b)))
      end
    | GU a, GU b =>
      match o with
      | GAdd => GOk (GU (uwrap64 (a + b))) | GSub => GOk (GU (uwrap64 (a - b))) | GMul => GOk (GU (uwrap64 (a * b)))
      | GDiv => if b =? 0 then GPanic else GOk (GU (Z.div a b))
      end
    | GF a, GF b =>
      GOk (GF (match o with GAdd => fadd fo a b | GSub => fsub fo a b | GMul => fmul fo a b | GDiv => fdiv fo a b end))
    | GS a, GS b => match o with GAdd => GOk (GS (a ++ b)) | _ => GIll end
    | _, _ => GIll
    end.

  Definition gbindr (r : gres) (k : gval -> gres) : gres := match r with GOk v => k v | x => x end.

  Fixpoint geval (a b : value) (e : gexp) : gres :=
    match e with
    | GGet rhs ac => gget (if rhs then b else a) ac
    | GConv t e1 => gbindr (geval a b e1) (gconv t)
    | GBin o l r => gbindr (geval a b l) (fun x => gbindr (geval a b r) (fun y => gbin o x y))
    | GConcat l r => gbindr (geval a b l) (fun x => gbindr (geval a b r) (fun y =>
                       match x, y with GS s, GS t => GOk (GS (s ++ t)) | _, _ => GIll end))
    end.

  (* interface{} result -> reflect.ValueOf *)
  Definition gout (r : gres) : res value :=
    match r with
    | GOk (GI z) => Ok (VInt KI64 z)
    | GOk (GU z) => Ok (VUint KU64 z)
    | GOk (GF f) => Ok (VFloat KF64 f)
    | GOk (GS s) => Ok (VStr s)
    | GPanic | GIll => Panic
    end.

  Definition gis_zero (v : gval) : bool :=
    match v with GI z | GU z => z =? 0 | GF f => f_is_zero fo f | GS _ => false end.

  (* running a table has two phases.  Which statements apply depends on the two kind names only (`select`: a closed
     computation once the operand kinds are known); what they compute depends on the operand values (`exec_plan`). *)
  Fixpoint exec_plan (p : plan) (a b : value) : res value :=
    match p with
    | PErr => Err []
    | PRet e => gout (geval a b e)
    | PZero ac k =>
      match gget b ac with
      | GOk v => if gis_zero v then Err [] else exec_plan k a b
      | _ => Panic
      end
    end.

  Definition run_gfun (g : gfun) (a b : value) : res value :=
    exec_plan (select g (kind_name a) (kind_name b)) a b.

  (* the operand domain of the model: every Go kind except those whose NAME one of the tables' tests would match without
     the value being of that class ("interface" starts with "int"): interface-typed operands are outside the model (DESIGN §11) *)
  Definition kind_outside (k : string) : bool :=
    negb (has_prefix "int" k) && negb (has_prefix "uint" k) && negb (has_prefix "float" k) && negb (String.eqb k "string").
  Definition modelled (v : value) : bool := match v with VOther k => kind_outside k | _ => true end.

  Definition operand (v : value) : Prop := modelled v = true /\ well_ranged v = true.

  Definition table_agrees (g : gfun) (o : aop) : Prop :=
    forall a b, operand a -> operand b -> run_gfun g a b = arith fo o a b.

  (* int64(u) of an in-range uint64 is zero only when u is: the zero guard of Div tests b.Uint(), the division is by int64(b.Uint()) *)
  Lemma wrap64_zero_iff (k : ukind) (y : Z) : in_urange k y = true -> (wrap64 y =? 0) = (y =? 0).
  Proof.
    intros H. unfold in_urange in H. apply andb_true_iff in H. destruct H as [H0 H1].
    apply Z.leb_le in H0. apply Z.ltb_lt in H1.
    assert (Hb : y < 2 ^ 64) by (destruct k; cbn [ubits] in H1; lia).
    unfold wrap64, swrap. change (64 - 1) with 63.
    destruct (Z.eqb_spec y 0) as [->|Hn]; [reflexivity|].
    apply Z.eqb_neq.
    destruct (Z_lt_le_dec y (2 ^ 63)) as [Hlt|Hge].
    - rewrite Z.mod_small by lia. lia.
    - replace (y + 2 ^ 63) with ((y - 2 ^ 63) + 1 * 2 ^ 64) by lia.
      rewrite Z.mod_add by lia. rewrite Z.mod_small by lia. lia.
  Qed.
End OpTable.

Arguments GI {fo}. Arguments GU {fo}. Arguments GF {fo}. Arguments GS {fo}.

(* --- the tables as read from the repaired pinned tree --- *)
Local Open Scope string_scope.
Definition hand_num_cases (o : gbop) : gfun :=
  [GCase (KPre "int") (KPre "int") (GBin o (GGet false AInt) (GGet true AInt));
   GCase (KPre "int") (KPre "uint") (GBin o (GGet false AInt) (GConv TInt64 (GGet true AUint)));
   GCase (KPre "int") (KPre "float") (GBin o (GConv TFloat64 (GGet false AInt)) (GGet true AFloat));
   GCase (KPre "uint") (KPre "int") (GBin o (GConv TInt64 (GGet false AUint)) (GGet true AInt));
   GCase (KPre "uint") (KPre "uint") (GBin o (GGet false AUint) (GGet true AUint));
   GCase (KPre "uint") (KPre "float") (GBin o (GConv TFloat64 (GGet false AUint)) (GGet true AFloat));
   GCase (KPre "float") (KPre "int") (GBin o (GGet false AFloat) (GConv TFloat64 (GGet true AInt)));
   GCase (KPre "float") (KPre "uint") (GBin o (GGet false AFloat) (GConv TFloat64 (GGet true AUint)));
   GCase (KPre "float") (KPre "float") (GBin o (GGet false AFloat) (GGet true AFloat))].
Definition hand_Add : gfun := GCase (KEq "string") (KEq "string") (GConcat (GGet false AStr) (GGet true AStr)) :: hand_num_cases GAdd.
Definition hand_Sub : gfun := hand_num_cases GSub.
Definition hand_Mul : gfun := hand_num_cases GMul.
Definition hand_Div : gfun := GZero (KPre "int") AInt :: GZero (KPre "uint") AUint :: GZero (KPre "float") AFloat :: hand_num_cases GDiv.

(* --- the tactic of the obligation: case analysis on the two operands (16 x 16 kinds), computation of the kind tests,
   case analysis on the zero tests that remain, syntactic equality of what is left --- *)
Ltac outside_hyps :=
  repeat match goal with
         | H : (_ && _)%bool = true |- _ => apply andb_true_iff in H; destruct H
         | H : negb _ = true |- _ => apply negb_true_iff in H
         | H : true = true |- _ => clear H
         end.

Ltac zero_tests :=
  repeat match goal with
         | H : in_urange ?k ?y = true |- context [Z.eqb (wrap64 ?y) 0] => rewrite (wrap64_zero_iff k y H)
         | |- context [Z.eqb ?y 0] => destruct (Z.eqb y 0) eqn:?
         | |- context [f_is_zero ?fo ?f] => destruct (f_is_zero fo f) eqn:?
         end.

Ltac plan_compute :=
  cbn [exec_plan geval gget gbindr gconv gbin gout gis_zero arith arith_pm class_of to_float].

(* operand kinds known: the plan is a closed term *)
Ltac closed_case :=
  match goal with
  | |- context [select ?g ?ka ?kb] =>
    let p := eval vm_compute in (select g ka kb) in
    change (select g ka kb) with p
  end;
  plan_compute; zero_tests; reflexivity.

(* one operand of an opaque kind (VOther k): the kind tests on k are decided by the hypotheses *)
Ltac open_case :=
  cbn [select ktest_holds];
  repeat match goal with H : has_prefix _ _ = false |- _ => rewrite H | H : String.eqb _ _ = false |- _ => rewrite H end;
  lazy beta iota zeta delta [select ktest_holds andb negb has_prefix String.eqb Ascii.eqb Bool.eqb];
  plan_compute; zero_tests; reflexivity.

Ltac table_tac :=
  intros a b Ha Hb;
  destruct a as [ka x | ka x | ka x | x | x | | oa]; destruct b as [kb y | kb y | kb y | y | y | | ob];
  try destruct ka; try destruct kb;
  destruct Ha as [Ha Hra]; destruct Hb as [Hb Hrb];
  cbn [modelled well_ranged] in Ha, Hb, Hra, Hrb; unfold kind_outside in Ha, Hb;
  outside_hyps;
  unfold run_gfun; cbn [kind_name];
  first [closed_case | open_case].
