(* Lang/Reader.v — from the TEXT of a rule file to the tree the listener builds.

   `read_text reals s` lexes s (Lang/Lexer.v), reads `primary : ruleEntity+` by recursive descent
   with the alternative choices the generated ANTLR parser makes, and applies the listener's own
   checks (internal/iparser/gengine_parser_listener.go): rule names non-empty and unique, integers
   and saliences within int64, map keys non-empty.  The result is the list of rules in text order,
   each with the Lang/Syntax.v tree whose nodes carry the position of their first token.

   Expressions are not read by a second precedence parser: the operand / operator / bracket
   skeleton of an expression is handed to `Parse.parse` (Lang/Parse.v) — the reader whose soundness,
   completeness and uniqueness are proved in Lang/ParseFacts.v — and the resulting SHAPE is turned
   into `expr` / `mexpr` nodes by the grammar's sorts: a subtree that can stand where a
   mathExpression is required becomes MathExpression nodes (the parser prefers the first
   alternative, `expression : mathExpression`), anything else Expression nodes.

   Alternative choices modelled (each is ANTLR's "lowest alternative among those that can match"):
     statement        : NAME `(` is a call, any other NAME starts an assignment
     assignment rhs   : mathExpression when the whole right-hand side is one, else expression
     functionArgs     : constant | variable | call | mapVar when the argument is exactly that, else expression
     expressionAtom   : call (NAME `(`), mapVar (NAME `[`), variable; `-` INT / `-` REAL is a constant
     returnStmt       : `return` takes an expression iff the next token can start one
     primary          : rules are read while the next token is `rule`; what follows is never read
   The parser reads its input lazily, so a character the lexer rejects matters only when the parser
   asks for a token at or beyond it: here, when the token list is exhausted (`lx_bad`).

   Real literals are converted by the oracle table `reals` (literal text -> m * 2^e), supplied by the
   driver from strconv.ParseFloat-compatible parsing; a literal missing from the table is `RUnsup`.

   The tie to the implementation: for every generated text the harness dumps the listener's tree and
   the driver's printer tree is compared with it; `read_text` of the same text must return exactly
   the printer tree (evaluated inside Coq), and for malformed texts `RErr` iff the builder rejects. *)
From Coq Require Import Ascii String List Arith Bool ZArith.
From GV Require Import Lang.Syntax Lang.Parse Lang.Lexer.
Import ListNotations.

Inductive rres (A : Type) :=
| ROk (a : A)
| RErr          (* rejected: syntax error or a listener check *)
| RUnsup        (* outside the model domain (escapes in strings, reals missing from the table) *)
| RFuel.        (* never for the fuel the entry points supply; reported as a disagreement if it happens *)
Arguments ROk {A}. Arguments RErr {A}. Arguments RUnsup {A}. Arguments RFuel {A}.

Definition bindr {A B} (x : rres A) (f : A -> rres B) : rres B :=
  match x with ROk a => f a | RErr => RErr | RUnsup => RUnsup | RFuel => RFuel end.
Notation "'dor' x <- e ;; k" := (bindr e (fun x => k)) (at level 200, x pattern, e at level 100, k at level 200).

Definition toks := list ptok.
Definition reals_t := list (string * (Z * Z)).

(* ---- literals ---- *)
Definition digit_val (c : ascii) : Z := Z.of_nat (code c - 48).
Definition int_of_digits (s : string) : Z :=
  fold_left (fun acc c => (acc * 10 + digit_val c)%Z) (list_ascii_of_string s) 0%Z.
Definition in_i64 (z : Z) : bool := ((- 2 ^ 63 <=? z) && (z <? 2 ^ 63))%Z.

Definition read_int (neg : bool) (digits : string) : rres Z :=
  let z := int_of_digits digits in
  let z := if neg then (- z)%Z else z in
  if in_i64 z then ROk z else RErr.                       (* strconv.ParseInt(text, 10, 64) fails *)

Fixpoint lookup_real (reals : reals_t) (s : string) : option (Z * Z) :=
  match reals with
  | (k, v) :: r => if String.eqb k s then Some v else lookup_real r s
  | [] => None
  end.

Definition read_real (reals : reals_t) (neg : bool) (s : string) : rres const :=
  match lookup_real reals (if neg then String "-" s else s) with
  | Some (m, e) => ROk (KReal m e)
  | None => RUnsup
  end.

Definition tk (t : ptok) : token := pt_tok t.

(* strings.Trim(text, QUOTE): the listener removes every quote character at both ends of a string token's text — and
   nothing else (no escape is interpreted): a doubled quote or a backslash-quote inside stays as the characters written *)
Definition is_quote (c : ascii) : bool := code c =? 34.
Fixpoint drop_quotes (cs : list ascii) : list ascii :=
  match cs with c :: r => if is_quote c then drop_quotes r else cs | [] => [] end.
Definition trimq (s : string) : string :=
  str_of (rev (drop_quotes (rev (drop_quotes (list_ascii_of_string s))))).

(* the spellings of the case-insensitive TRUE / FALSE tokens that strconv.ParseBool accepts (ExitBooleanLiteral) *)
Definition bool_spelling (s : string) : bool :=
  String.eqb s "true" || String.eqb s "True" || String.eqb s "TRUE" || String.eqb s "false" || String.eqb s "False" || String.eqb s "FALSE".

(* a constant at the head of the token list, if one starts there *)
Definition read_const (reals : reals_t) (ts : toks) : option (rres (const * pos * toks)) :=
  match ts with
  | t :: r =>
    match tk t with
    | LxInt s => Some (dor z <- read_int false s ;; ROk (KInt z, pt_pos t, r))
    | LxReal s => Some (dor c <- read_real reals false s ;; ROk (c, pt_pos t, r))
    | LxStr s => Some (ROk (KStr (trimq s), pt_pos t, r))
    | LxBool b s => Some (if bool_spelling s then ROk (KBool b, pt_pos t, r) else RErr)
    | LxAt At_name => Some (ROk (KAtName, pt_pos t, r))
    | LxAt At_id => Some (ROk (KAtId, pt_pos t, r))
    | LxAt At_desc => Some (ROk (KAtDesc, pt_pos t, r))
    | LxAt At_sal => Some (ROk (KAtSal, pt_pos t, r))
    | LxSym Y_minus =>
      match r with
      | t2 :: r2 =>
        match tk t2 with
        | LxInt s => Some (dor z <- read_int true s ;; ROk (KInt z, pt_pos t, r2))
        | LxReal s => Some (dor c <- read_real reals true s ;; ROk (c, pt_pos t, r2))
        | _ => None
        end
      | [] => None
      end
    | _ => None
    end
  | [] => None
  end.

(* `[` key `]` after a variable *)
Definition read_key (ts : toks) : rres (mkey * toks) :=
  match ts with
  | a :: r =>
    match tk a, r with
    | LxInt s, b :: r' => match tk b with LxSym Y_rsq => dor z <- read_int false s ;; ROk (MKInt z, r') | _ => RErr end
    | LxSym Y_minus, b :: c :: r' =>
      match tk b, tk c with
      | LxInt s, LxSym Y_rsq => dor z <- read_int true s ;; ROk (MKInt z, r')
      | _, _ => RErr
      end
    | LxStr s, b :: r' =>
      match tk b with
      | LxSym Y_rsq => if String.eqb (trimq s) "" then RErr (* "MAP key should not be null string" *) else ROk (MKStr (trimq s), r')
      | _ => RErr
      end
    | LxName _ n, b :: r' => match tk b with LxSym Y_rsq => ROk (MKVar n, r') | _ => RErr end
    | _, _ => RErr
    end
  | [] => RErr
  end.

Definition ckind_of (dots : nat) : ckind := match dots with 0 => CFunc | 1 => CMethod | _ => CThree end.

Definition bop_of (y : sym) : option bop :=
  match y with
  | Y_plus => Some (BA OAdd) | Y_minus => Some (BA OSub) | Y_mul => Some (BA OMul) | Y_div => Some (BA ODiv)
  | Y_eq => Some (BC CEq) | Y_ne => Some (BC CNe) | Y_gt => Some (BC CGt) | Y_lt => Some (BC CLt)
  | Y_ge => Some (BC CGe) | Y_le => Some (BC CLe)
  | Y_and => Some (BL LAnd) | Y_or => Some (BL LOr)
  | _ => None
  end.

(* ---- shape -> tree, consuming the positions of the skeleton's tokens in print order ---- *)
Definition mpos (m : mexpr) : pos := match m with MAtom p _ | MBin p _ _ _ | MParen p _ => p end.
Definition epos (e : expr) : pos :=
  match e with EMath p _ | ECmp p _ _ _ | ELogic p _ _ _ | EAtom p _ _ | EParen p _ _ => p end.

Definition no_atom : atom := AVar "".

Fixpoint conv_m (atoms : list atom) (t : shape) (ps : list pos) : option (mexpr * list pos) :=
  match t with
  | SLeaf false n => match ps with p :: r => Some (MAtom p (nth n atoms no_atom), r) | [] => None end
  | SParen false t' =>
    match ps with
    | p :: r => match conv_m atoms t' r with Some (m, _ :: r') => Some (MParen p m, r') | _ => None end
    | [] => None
    end
  | SNode (BA o) l r =>
    match conv_m atoms l ps with
    | Some (ml, _ :: r1) => match conv_m atoms r r1 with Some (mr, r2) => Some (MBin (mpos ml) o ml mr, r2) | None => None end
    | _ => None
    end
  | _ => None
  end.

Fixpoint conv_e (atoms : list atom) (t : shape) (ps : list pos) : option (expr * list pos) :=
  if is_math t then
    match conv_m atoms t ps with Some (m, r) => Some (EMath (mpos m) m, r) | None => None end
  else
    match t with
    | SLeaf _ n => match ps with p :: _ :: r => Some (EAtom p true (nth n atoms no_atom), r) | _ => None end
    | SParen neg t' =>
      match ps with
      | p :: r =>
        let r0 := if neg then tl r else r in
        match conv_e atoms t' r0 with Some (e, _ :: r') => Some (EParen p neg e, r') | _ => None end
      | [] => None
      end
    | SNode (BC o) l r =>
      match conv_e atoms l ps with
      | Some (el, _ :: r1) => match conv_e atoms r r1 with Some (er, r2) => Some (ECmp (epos el) o el er, r2) | None => None end
      | _ => None
      end
    | SNode (BL o) l r =>
      match conv_e atoms l ps with
      | Some (el, _ :: r1) => match conv_e atoms r r1 with Some (er, r2) => Some (ELogic (epos el) o el er, r2) | None => None end
      | _ => None
      end
    | SNode (BA _) _ _ => None
    end.

(* a read expression before the choice between MathExpression and Expression nodes *)
Record rawexpr := mkRaw { rw_shape : shape; rw_atoms : list atom; rw_pos : list pos }.

Definition raw_expr (x : rawexpr) : rres expr :=
  match conv_e (rw_atoms x) (rw_shape x) (rw_pos x) with Some (e, _) => ROk e | None => RErr end.
Definition raw_mexpr (x : rawexpr) : rres mexpr :=
  match conv_m (rw_atoms x) (rw_shape x) (rw_pos x) with Some (m, _) => ROk m | None => RErr end.

(* functionArgs: the first alternative that matches the whole argument *)
Definition raw_arg (x : rawexpr) : rres arg :=
  match rw_shape x with
  | SLeaf false n =>
    match nth n (rw_atoms x) no_atom with
    | AConst c => ROk (GConst c)
    | AVar v => ROk (GVar v)
    | ACall c => ROk (GCall c)
    | AMapVar m => ROk (GMapVar m)
    end
  | _ => dor e <- raw_expr x ;; ROk (GExpr e)
  end.

(* ---- expressions, atoms, calls (mutually recursive through call arguments) ---- *)
Section Expr.
  Variable reals : reals_t.

  Fixpoint read_atom (fuel : nat) (ts : toks) {struct fuel} : rres (atom * pos * toks) :=
    match fuel with
    | 0 => RFuel
    | S f =>
      match read_const reals ts with
      | Some r => dor x <- r ;; (let '(c, p, rest) := x in ROk (AConst c, p, rest))
      | None =>
        match ts with
        | t :: r =>
          match tk t with
          | LxName dots n =>
            match r with
            | t2 :: r2 =>
              match tk t2 with
              | LxSym Y_lpar => dor x <- read_args f r2 ;; (let '(a, rest) := x in ROk (ACall (Call (ckind_of dots) (pt_pos t) n a), pt_pos t, rest))
              | LxSym Y_lsq => dor x <- read_key r2 ;; (let '(k, rest) := x in ROk (AMapVar (mkMV (pt_pos t) n k), pt_pos t, rest))
              | _ => ROk (AVar n, pt_pos t, r)
              end
            | [] => ROk (AVar n, pt_pos t, r)
            end
          | _ => RErr
          end
        | [] => RErr
        end
      end
    end
  (* after `(`: the arguments and the closing `)` *)
  with read_args (fuel : nat) (ts : toks) {struct fuel} : rres (args * toks) :=
    match fuel with
    | 0 => RFuel
    | S f =>
      match ts with
      | t :: r =>
        match tk t with
        | LxSym Y_rpar => ROk (ANil, r)
        | _ => read_arglist f ts
        end
      | [] => RErr
      end
    end
  with read_arglist (fuel : nat) (ts : toks) {struct fuel} : rres (args * toks) :=
    match fuel with
    | 0 => RFuel
    | S f =>
      dor x <- scan f ts 0 [] [] ;;
      let '(raw, rest) := x in
      dor a <- raw_arg raw ;;
      match rest with
      | t :: r =>
        match tk t with
        | LxSym Y_rpar => ROk (ACons a ANil, r)
        | LxSym Y_comma => dor y <- read_arglist f r ;; (let '(more, rest') := y in ROk (ACons a more, rest'))
        | _ => RErr
        end
      | [] => RErr
      end
    end
  (* expecting an operand; acc: the skeleton so far, reversed, with the position of every token *)
  with scan (fuel : nat) (ts : toks) (depth : nat) (acc : list (tok * pos)) (atoms : list atom) {struct fuel} : rres (rawexpr * toks) :=
    match fuel with
    | 0 => RFuel
    | S f =>
      match ts with
      | t :: r =>
        match tk t with
        | LxSym Y_not => scan f r depth ((TNot, pt_pos t) :: acc) atoms
        | LxSym Y_lpar => scan f r (S depth) ((TL, pt_pos t) :: acc) atoms
        | _ =>
          dor x <- read_atom f ts ;;
          let '(a, p, rest) := x in
          after f rest depth ((TAtom (length atoms), p) :: acc) (atoms ++ [a])
        end
      | [] => RErr
      end
    end
  (* after an operand *)
  with after (fuel : nat) (ts : toks) (depth : nat) (acc : list (tok * pos)) (atoms : list atom) {struct fuel} : rres (rawexpr * toks) :=
    match fuel with
    | 0 => RFuel
    | S f =>
      let finish :=
        let sk := rev acc in
        match parse (map fst sk) with
        | Some sh => ROk (mkRaw sh atoms (map snd sk), ts)
        | None => RErr
        end in
      match ts with
      | t :: r =>
        match tk t with
        | LxSym Y_rpar => match depth with S d => after f r d ((TR, pt_pos t) :: acc) atoms | 0 => finish end
        | LxSym y => match bop_of y with Some o => scan f r depth ((TOp o, pt_pos t) :: acc) atoms | None => finish end
        | _ => finish
        end
      | [] => finish
      end
    end.

  Definition efuel (ts : toks) : nat := 4 * length ts + 8.
  Definition read_raw (ts : toks) : rres (rawexpr * toks) := scan (efuel ts) ts 0 [] [].
  Definition read_expr (ts : toks) : rres (expr * toks) :=
    dor x <- read_raw ts ;; (let '(raw, rest) := x in dor e <- raw_expr raw ;; ROk (e, rest)).

  (* can the token start an expression?  (FIRST(expression)) *)
  Definition starts_expr (t : ptok) : bool :=
    match tk t with
    | LxName _ _ | LxInt _ | LxReal _ | LxStr _ | LxAt _ | LxBool _ _ => true
    | LxSym Y_minus | LxSym Y_not | LxSym Y_lpar => true
    | _ => false
    end.

  (* ---- statements ---- *)
  Definition asg_of (y : sym) : option asg :=
    match y with
    | Y_set => Some AsSet | Y_assign => Some AsDef | Y_pluseq => Some AsAdd | Y_minuseq => Some AsSub
    | Y_muleq => Some AsMul | Y_diveq => Some AsDiv | _ => None
    end.

  Definition read_target (ts : toks) : rres (target * pos * toks) :=
    match ts with
    | t :: r =>
      match tk t with
      | LxName _ n =>
        match r with
        | t2 :: r2 =>
          match tk t2 with
          | LxSym Y_lsq => dor x <- read_key r2 ;; (let '(k, rest) := x in ROk (TMap (mkMV (pt_pos t) n k), pt_pos t, rest))
          | _ => ROk (TVar n, pt_pos t, r)
          end
        | [] => ROk (TVar n, pt_pos t, r)
        end
      | _ => RErr
      end
    | [] => RErr
    end.

  Definition read_assign (ts : toks) : rres (assignment * toks) :=
    dor x <- read_target ts ;;
    let '(tg, p, r) := x in
    match r with
    | t :: r2 =>
      match tk t with
      | LxSym y =>
        match asg_of y with
        | Some op =>
          dor z <- read_raw r2 ;;
          let '(raw, rest) := z in
          if is_math (rw_shape raw)
          then dor m <- raw_mexpr raw ;; ROk (mkAsg p tg op (RMath m), rest)
          else dor e <- raw_expr raw ;; ROk (mkAsg p tg op (RExpr e), rest)
        | None => RErr
        end
      | _ => RErr
      end
    | [] => RErr
    end.

  Definition expect (y : sym) (ts : toks) : rres toks :=
    match ts with
    | t :: r => match tk t with LxSym y' => if Nat.eqb (match y with Y_semi => 1 | Y_lbrace => 2 | Y_rbrace => 3 | _ => 0 end)
                                                        (match y' with Y_semi => 1 | Y_lbrace => 2 | Y_rbrace => 3 | _ => 9 end)
                                           then ROk r else RErr
                          | _ => RErr end
    | [] => RErr
    end.

  Definition is_call_start (ts : toks) : bool :=
    match ts with
    | a :: b :: _ => match tk a, tk b with LxName _ _, LxSym Y_lpar => true | _, _ => false end
    | _ => false
    end.

  Definition read_call (ts : toks) : rres (call * toks) :=
    dor x <- read_atom (efuel ts) ts ;;
    let '(a, _, rest) := x in
    match a with ACall c => ROk (c, rest) | _ => RErr end.

  (* the children of a conc block, up to and including `}`: grouped as ConcStatement stores them *)
  Fixpoint read_conc (fuel : nat) (ts : toks) (asgs calls0 calls1 calls2 : list cchild) {struct fuel} : rres (list cchild * toks) :=
    match fuel with
    | 0 => RFuel
    | S f =>
      match ts with
      | t :: r =>
        match tk t with
        | LxSym Y_rbrace => ROk (rev asgs ++ rev calls0 ++ rev calls1 ++ rev calls2, r)
        | LxName dots _ =>
          if is_call_start ts then
            dor x <- read_call ts ;;
            let '(c, rest) := x in
            match dots with
            | 0 => read_conc f rest asgs (CCCall c :: calls0) calls1 calls2
            | 1 => read_conc f rest asgs calls0 (CCCall c :: calls1) calls2
            | _ => read_conc f rest asgs calls0 calls1 (CCCall c :: calls2)
            end
          else
            dor x <- read_assign ts ;;
            let '(a, rest) := x in read_conc f rest (CCAsg a :: asgs) calls0 calls1 calls2
        | _ => RErr
        end
      | [] => RErr
      end
    end.

  Fixpoint read_block (fuel : nat) (ts : toks) {struct fuel} : rres (block * toks) :=
    match fuel with
    | 0 => RFuel
    | S f =>
      dor x <- read_stmts f ts ;;
      let '(ss, r) := x in
      match r with
      | t :: r2 =>
        match tk t with
        | LxKw Kw_return =>
          match r2 with
          | t3 :: _ =>
            if starts_expr t3 then dor y <- read_expr r2 ;; (let '(e, rest) := y in ROk (Block ss (Some (Some e)), rest))
            else ROk (Block ss (Some None), r2)
          | [] => ROk (Block ss (Some None), r2)
          end
        | _ => ROk (Block ss None, r)
        end
      | [] => ROk (Block ss None, r)
      end
    end
  with read_stmts (fuel : nat) (ts : toks) {struct fuel} : rres (stmts * toks) :=
    match fuel with
    | 0 => RFuel
    | S f =>
      dor x <- read_stmt f ts ;;
      match x with
      | None => ROk (SNil, ts)
      | Some (s, rest) => dor y <- read_stmts f rest ;; (let '(more, rest') := y in ROk (SCons s more, rest'))
      end
    end
  with read_stmt (fuel : nat) (ts : toks) {struct fuel} : rres (option (stmt * toks)) :=
    match fuel with
    | 0 => RFuel
    | S f =>
      match ts with
      | t :: r =>
        match tk t with
        | LxKw Kw_if =>
          dor x <- read_expr r ;;
          let '(c, r1) := x in
          dor y <- read_braced f r1 ;;
          let '(th, r2) := y in
          dor z <- read_elifs f r2 ;;
          let '(els, el, r3) := z in
          ROk (Some (SIf c th els el, r3))
        | LxKw Kw_for =>
          dor x <- read_assign r ;;
          let '(init, r1) := x in
          dor r2 <- expect Y_semi r1 ;;
          dor y <- read_expr r2 ;;
          let '(c, r3) := y in
          dor r4 <- expect Y_semi r3 ;;
          dor z <- read_assign r4 ;;
          let '(step, r5) := z in
          dor w <- read_braced f r5 ;;
          let '(body, r6) := w in
          ROk (Some (SFor (pt_pos t) init c step body, r6))
        | LxKw Kw_forrange =>
          match r with
          | a :: b :: c :: r1 =>
            match tk a, tk b, tk c with
            | LxName _ k, LxSym Y_assign, LxName _ coll =>
              dor w <- read_braced f r1 ;;
              let '(body, r2) := w in
              ROk (Some (SForRange (pt_pos t) k coll body, r2))
            | _, _, _ => RErr
            end
          | _ => RErr
          end
        | LxKw Kw_break => ROk (Some (SBreak, r))
        | LxKw Kw_continue => ROk (Some (SContinue, r))
        | LxKw Kw_conc =>
          dor r1 <- expect Y_lbrace r ;;
          dor x <- read_conc (S (length r1)) r1 [] [] [] [] ;;
          let '(cs, r2) := x in ROk (Some (SConc cs, r2))
        | LxName _ _ =>
          if is_call_start ts then dor x <- read_call ts ;; (let '(c, rest) := x in ROk (Some (SCall c, rest)))
          else dor x <- read_assign ts ;; (let '(a, rest) := x in ROk (Some (SAssign a, rest)))
        | _ => ROk None
        end
      | [] => ROk None
      end
    end
  (* `{` statements `}` *)
  with read_braced (fuel : nat) (ts : toks) {struct fuel} : rres (block * toks) :=
    match fuel with
    | 0 => RFuel
    | S f =>
      dor r1 <- expect Y_lbrace ts ;;
      dor x <- read_block f r1 ;;
      let '(b, r2) := x in
      dor r3 <- expect Y_rbrace r2 ;;
      ROk (b, r3)
    end
  (* elseIfStmt* elseStmt? *)
  with read_elifs (fuel : nat) (ts : toks) {struct fuel} : rres (eliflist * option block * toks) :=
    match fuel with
    | 0 => RFuel
    | S f =>
      match ts with
      | a :: b :: r =>
        match tk a, tk b with
        | LxKw Kw_else, LxKw Kw_if =>
          dor x <- read_expr r ;;
          let '(c, r1) := x in
          dor y <- read_braced f r1 ;;
          let '(blk, r2) := y in
          dor z <- read_elifs f r2 ;;
          let '(more, el, r3) := z in
          ROk (ECons c blk more, el, r3)
        | LxKw Kw_else, _ =>
          dor y <- read_braced f (b :: r) ;;
          let '(blk, r2) := y in
          ROk (ENil, Some blk, r2)
        | _, _ => ROk (ENil, None, ts)
        end
      | _ => ROk (ENil, None, ts)
      end
    end.

  Definition sfuel (ts : toks) : nat := 6 * length ts + 12.

  (* ---- rules ---- *)
  (* RULE ruleName ruleDescription? salience? BEGIN ruleContent END *)
  Definition read_rule (ts : toks) : rres (rule * toks) :=
    match ts with
    | a :: b :: r =>
      match tk a, tk b with
      | LxKw Kw_rule, LxStr rawname =>
        let name := trimq rawname in
        if String.eqb name "" then RErr else
        let '(desc, r1) := match r with
                           | d :: r' => match tk d with LxStr s => (trimq s, r') | _ => (EmptyString, r) end
                           | [] => (EmptyString, r)
                           end in
        dor x <- match r1 with
                 | s :: r' =>
                   match tk s with
                   | LxKw Kw_salience =>
                     match r' with
                     | i :: r'' =>
                       match tk i, r'' with
                       | LxInt digits, _ => dor z <- read_int false digits ;; ROk (z, r'')
                       | LxSym Y_minus, j :: r3 => match tk j with LxInt digits => dor z <- read_int true digits ;; ROk (z, r3) | _ => RErr end
                       | _, _ => RErr
                       end
                     | [] => RErr
                     end
                   | _ => ROk (0%Z, r1)
                   end
                 | [] => ROk (0%Z, r1)
                 end ;;
        let '(sal, r2) := x in
        match r2 with
        | bg :: r3 =>
          match tk bg with
          | LxKw Kw_begin =>
            dor y <- read_block (sfuel r3) r3 ;;
            let '(body, r4) := y in
            match r4 with
            | e :: r5 => match tk e with LxKw Kw_end => ROk (mkRule (mkMeta name desc sal) body, r5) | _ => RErr end
            | [] => RErr
            end
          | _ => RErr
          end
        | [] => RErr
        end
      | _, _ => RErr
      end
    | _ => RErr
    end.

  Fixpoint name_in (n : string) (rs : list rule) : bool :=
    match rs with
    | r :: rest => String.eqb (m_name (r_meta r)) n || name_in n rest
    | [] => false
    end.

  (* ruleEntity+ ; returns the rules and the unread rest *)
  Fixpoint read_rules (fuel : nat) (ts : toks) (acc : list rule) {struct fuel} : rres (list rule * toks) :=
    match fuel with
    | 0 => RFuel
    | S f =>
      dor x <- read_rule ts ;;
      let '(r, rest) := x in
      if name_in (m_name (r_meta r)) acc then RErr        (* "already existed entity's name" *)
      else
        match rest with
        | t :: _ => match tk t with LxKw Kw_rule => read_rules f rest (r :: acc) | _ => ROk (rev (r :: acc), rest) end
        | [] => ROk (rev (r :: acc), rest)
        end
    end.
End Expr.

Definition read_text (reals : reals_t) (s : string) : rres (list rule) :=
  let lx := lex s in
  match read_rules reals (S (length (lx_toks lx))) (lx_toks lx) [] with
  | ROk (rs, rest) =>
    (* the parser looked one token beyond the last `end`: if that is where the lexer gave up, the error was reported *)
    match rest with
    | [] => if lx_bad lx then RErr else if lx_unsup lx then RUnsup else ROk rs
    | _ => if lx_unsup lx then RUnsup else ROk rs
    end
  | RErr => if lx_unsup lx then RUnsup else RErr
  | RUnsup => RUnsup
  | RFuel => RFuel
  end.

Definition accepts (reals : reals_t) (s : string) : rres bool :=
  match read_text reals s with ROk _ => ROk true | RErr => ROk false | RUnsup => RUnsup | RFuel => RFuel end.
