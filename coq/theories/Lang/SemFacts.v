(* Lang/SemFacts.v — facts about the evaluator of Lang/Sem.v: unfolding equations of every
   construct, sequencing, loops, return propagation, assignment, local scope, rule results,
   cited positions.  Proofs for Props/C01.v (compositionality), C02.v, C15.v, C20.v. *)
From Coq Require Import Ascii String List ZArith Bool Lia.
From Coq Require FinFun.
From GV Require Import Lang.Value Lang.Syntax Lang.Store Lang.Sem Lang.OpsFacts.
Import ListNotations.
Local Open Scope Z_scope.

Arguments Normal {fo}. Arguments Returned {fo}. Arguments Brk {fo}. Arguments Cont {fo}.
Arguments Failed {fo}. Arguments Panicked {fo}.
Arguments RRNoReturn {fo}. Arguments RRReturn {fo}. Arguments RRError {fo}. Arguments RRPanic {fo}.

(* statement lists: concatenation *)
Fixpoint sapp (a b : stmts) : stmts :=
  match a with SNil => b | SCons s r => SCons s (sapp r b) end.

(* does a return statement occur anywhere inside? *)
Fixpoint has_return_stmt (s : stmt) : bool :=
  match s with
  | SIf _ th elifs el =>
    has_return_block th || has_return_elifs elifs ||
    match el with Some b => has_return_block b | None => false end
  | SFor _ _ _ _ body => has_return_block body
  | SForRange _ _ _ body => has_return_block body
  | _ => false
  end
with has_return_block (b : block) : bool :=
  match b with
  | Block ss r => has_return_stmts ss || match r with Some _ => true | None => false end
  end
with has_return_stmts (ss : stmts) : bool :=
  match ss with SNil => false | SCons s r => has_return_stmt s || has_return_stmts r end
with has_return_elifs (l : eliflist) : bool :=
  match l with ENil => false | ECons _ b r => has_return_block b || has_return_elifs r end.

(* mutual induction over statements; the else branch (an [option block]) gets its hypothesis too *)
Section StmtInd.
  Variables (P : stmt -> Prop) (P0 : block -> Prop) (P1 : stmts -> Prop) (P2 : eliflist -> Prop).
  Definition opt_block_P (o : option block) : Prop := match o with Some b => P0 b | None => True end.
  Hypothesis H_assign : forall a, P (SAssign a).
  Hypothesis H_call : forall c, P (SCall c).
  Hypothesis H_if : forall c th, P0 th -> forall elifs, P2 elifs -> forall el, opt_block_P el -> P (SIf c th elifs el).
  Hypothesis H_for : forall p init c step body, P0 body -> P (SFor p init c step body).
  Hypothesis H_forrange : forall p key coll body, P0 body -> P (SForRange p key coll body).
  Hypothesis H_break : P SBreak.
  Hypothesis H_continue : P SContinue.
  Hypothesis H_conc : forall cs, P (SConc cs).
  Hypothesis H_block : forall ss, P1 ss -> forall r, P0 (Block ss r).
  Hypothesis H_snil : P1 SNil.
  Hypothesis H_scons : forall s, P s -> forall rest, P1 rest -> P1 (SCons s rest).
  Hypothesis H_enil : P2 ENil.
  Hypothesis H_econs : forall c b, P0 b -> forall rest, P2 rest -> P2 (ECons c b rest).

  Fixpoint stmt_mind (s : stmt) : P s :=
    match s return P s with
    | SAssign a => H_assign a
    | SCall c => H_call c
    | SIf c th elifs el =>
      H_if c th (block_mind th) elifs (eliflist_mind elifs) el
           (match el return opt_block_P el with Some b => block_mind b | None => I end)
    | SFor p init c step body => H_for p init c step body (block_mind body)
    | SForRange p key coll body => H_forrange p key coll body (block_mind body)
    | SBreak => H_break
    | SContinue => H_continue
    | SConc cs => H_conc cs
    end
  with block_mind (b : block) : P0 b :=
    match b return P0 b with Block ss r => H_block ss (stmts_mind ss) r end
  with stmts_mind (ss : stmts) : P1 ss :=
    match ss return P1 ss with
    | SNil => H_snil
    | SCons s rest => H_scons s (stmt_mind s) rest (stmts_mind rest)
    end
  with eliflist_mind (l : eliflist) : P2 l :=
    match l return P2 l with
    | ENil => H_enil
    | ECons c b rest => H_econs c b (block_mind b) rest (eliflist_mind rest)
    end.

  Lemma stmt_mutind : (forall s, P s) /\ (forall b, P0 b) /\ (forall ss, P1 ss) /\ (forall l, P2 l).
  Proof. repeat split; [apply stmt_mind | apply block_mind | apply stmts_mind | apply eliflist_mind]. Qed.
End StmtInd.

Scheme atom_mind := Induction for atom Sort Prop
with call_mind := Induction for call Sort Prop
with args_mind := Induction for args Sort Prop
with arg_mind := Induction for arg Sort Prop
with mexpr_mind := Induction for mexpr Sort Prop
with expr_mind := Induction for expr Sort Prop.
Combined Scheme expr_mutind from atom_mind, call_mind, args_mind, arg_mind, mexpr_mind, expr_mind.

(* ================= Store level: which errors the data context can report ================= *)
Ltac bm H :=
  match type of H with
  | context [match ?x with _ => _ end] => destruct x eqn:?; try discriminate
  end.

Section StoreErr.
  Variable fo : float_ops.
  Notation value := (value fo).
  Notation env := (env fo).

  Lemma wrap_err_inv : forall A p (r : res A) c, wrap p r = Err c -> exists c', r = Err c' /\ c = p :: c'.
  Proof. intros A p r c H. destruct r; cbn in H; try discriminate. inversion H; eauto. Qed.

  Lemma get_field_err_nil : forall (o : hobj fo) f c, get_field fo o f = Err c -> c = [].
  Proof. intros o f c H. unfold get_field in H. repeat bm H. Qed.

  Lemma wanted_err_nil : forall t (v : value) c, wanted fo t v = Err c -> c = [].
  Proof. intros t v c H. unfold wanted in H. repeat bm H. Qed.

  Lemma set_conv_err_nil : forall t (v : value) c, set_conv fo t v = Err c -> c = [].
  Proof. intros t v c H. unfold set_conv in H. repeat bm H. Qed.

  Lemma set_single_err_nil : forall t (v : value) c, set_single fo t v = Err c -> c = [].
  Proof. intros t v c H. unfold set_single in H. repeat bm H; congruence. Qed.

  Lemma num_conv_err_nil : forall t (v : value) c, num_conv fo t v = Err c -> c = [].
  Proof. intros t v c H. unfold num_conv in H. repeat bm H. Qed.

  Lemma convert_args_err_nil : forall ps (vs : list value) c, convert_args fo ps vs = Err c -> c = [].
  Proof.
    induction ps as [|t ps IH]; intros vs c H; cbn in H; [discriminate|].
    destruct vs as [|v vs]; [discriminate|]. unfold bind in H.
    destruct (num_conv fo t v) eqn:N; [| inversion H; subst; eapply num_conv_err_nil; eauto | discriminate].
    destruct (convert_args fo ps vs) eqn:C; [discriminate | inversion H; subst; eauto | discriminate].
  Qed.

  Lemma invoke_err_nil : forall (e : env) f vs c, invoke fo e f vs = Err c -> c = [].
  Proof.
    intros e f vs c H. unfold invoke, bind in H.
    destruct (convert_args fo (f_params f) vs) eqn:C; [| inversion H; subst; eapply convert_args_err_nil; eauto | discriminate].
    repeat bm H.
  Qed.

  #[local] Hint Resolve get_field_err_nil wanted_err_nil set_conv_err_nil set_single_err_nil num_conv_err_nil
       convert_args_err_nil invoke_err_nil : errnil.

  Ltac fin H := inversion H; subst; eauto with errnil.

  Lemma resolve_err_nil : forall (e : env) n c, resolve fo e n = Err c -> c = [].
  Proof.
    intros e n c H. unfold resolve, bind in H. repeat bm H; fin H.
  Qed.
  #[local] Hint Resolve resolve_err_nil : errnil.

  Lemma get_value_err_nil : forall (e : env) n c, get_value fo e n = Err c -> c = [].
  Proof. intros e n c H. unfold get_value, bind in H. repeat bm H; fin H. Qed.
  #[local] Hint Resolve get_value_err_nil : errnil.

  Lemma key_value_err_nil : forall (e : env) k c, key_value fo e k = Err c -> c = [].
  Proof. intros e k c H. unfold key_value in H. repeat bm H; fin H. Qed.
  #[local] Hint Resolve key_value_err_nil : errnil.

  Lemma set_field_err_nil : forall (o : hobj fo) f v c, set_field fo o f v = Err c -> c = [].
  Proof. intros o f v c H. unfold set_field, bind in H. repeat bm H; fin H. Qed.
  #[local] Hint Resolve set_field_err_nil : errnil.

  Lemma set_value_err_nil : forall (e : env) n v c, set_value fo e n v = Err c -> c = [].
  Proof. intros e n v c H. unfold set_value, bind in H. repeat bm H; fin H. Qed.

  Lemma exec_call_err_nil : forall (e : env) k n vs c, exec_call fo e k n vs = Err c -> c = [].
  Proof. intros e k n vs c H. unfold exec_call, bind in H. repeat bm H; fin H. Qed.

  Lemma mapvar_set_err_nil : forall (e : env) m v c, mapvar_set fo e m v = Err c -> c = [].
  Proof. intros e m v c H. unfold mapvar_set, bind in H. repeat bm H; fin H. Qed.

  Lemma mapvar_get_err_cites : forall (e : env) m c, mapvar_get fo e m = Err c -> c = [mv_pos m].
  Proof.
    intros e m c H. unfold mapvar_get, bind in H. repeat bm H; inversion H; subst; try reflexivity;
    match goal with E : wrap _ _ = Err _ |- _ => apply wrap_err_inv in E; destruct E as [c' [E ->]] end;
    f_equal; eauto with errnil.
  Qed.
End StoreErr.

Section SemFacts.
  Variable fo : float_ops.
  Variable meta : rule_meta.
  Variable real_of : Z -> Z -> fl fo.
  Notation value := (value fo).
  Notation env := (env fo).
  Notation flow := (flow fo).
  Notation St := (Sem.S fo).
  Notation eval_atom := (eval_atom fo meta real_of).
  Notation eval_call := (eval_call fo meta real_of).
  Notation eval_args := (eval_args fo meta real_of).
  Notation eval_arg := (eval_arg fo meta real_of).
  Notation eval_mexpr := (eval_mexpr fo meta real_of).
  Notation eval_expr := (eval_expr fo meta real_of).
  Notation eval_rhs := (eval_rhs fo meta real_of).
  Notation exec_assign := (exec_assign fo meta real_of).
  Notation on_cond := (on_cond fo meta real_of).
  Notation for_loop := (for_loop fo meta real_of).
  Notation range_loop := (range_loop fo).
  Notation conc_child := (conc_child fo meta real_of).
  Notation conc_run := (conc_run fo meta real_of).
  Notation exec_stmt := (exec_stmt fo meta real_of).
  Notation exec_block := (exec_block fo meta real_of).
  Notation exec_stmts := (exec_stmts fo meta real_of).
  Notation exec_elifs := (exec_elifs fo meta real_of).
  Notation exec_rule := (exec_rule fo meta real_of).

  (* ================= unfolding equations: expressions ================= *)
  Lemma eval_mexpr_atom : forall p a, eval_mexpr (MAtom p a) = eval_atom a.
  Proof. reflexivity. Qed.
  Lemma eval_mexpr_paren : forall p m, eval_mexpr (MParen p m) = eval_mexpr m.
  Proof. reflexivity. Qed.
  Lemma eval_mexpr_bin : forall p o l r,
    eval_mexpr (MBin p o l r) =
    mbind fo (eval_mexpr l) (fun lv => mbind fo (eval_mexpr r) (fun rv => lift fo (wrap p (arith fo o lv rv)))).
  Proof. reflexivity. Qed.
  Lemma eval_expr_math : forall p m,
    eval_expr (EMath p m) = mbind fo (eval_mexpr m) (fun v => lift fo (finish fo p false v)).
  Proof. reflexivity. Qed.
  Lemma eval_expr_atom : forall p neg a,
    eval_expr (EAtom p neg a) = mbind fo (eval_atom a) (fun v => lift fo (finish fo p neg v)).
  Proof. reflexivity. Qed.
  Lemma eval_expr_paren : forall p neg x,
    eval_expr (EParen p neg x) = mbind fo (eval_expr x) (fun v => lift fo (finish fo p neg v)).
  Proof. reflexivity. Qed.
  Lemma eval_expr_logic : forall p o l r,
    eval_expr (ELogic p o l r) =
    mbind fo (eval_expr l) (fun lv => mbind fo (eval_expr r) (fun rv =>
      lift fo (match logic fo o lv rv with Some b => Ok (VBool b) | None => Err [p] end))).
  Proof. reflexivity. Qed.
  Lemma eval_expr_cmp : forall p o l r,
    eval_expr (ECmp p o l r) =
    mbind fo (eval_expr l) (fun lv => mbind fo (eval_expr r) (fun rv =>
      lift fo (match compare fo o lv rv with Some b => Ok (VBool b) | None => Err [p] end))).
  Proof. reflexivity. Qed.
  Lemma eval_call_eq : forall k p name a,
    eval_call (Call k p name a) =
    mrecover fo p
      (mbind fo (eval_args a) (fun vs =>
         fun e => match wrap p (exec_call fo e k name vs) with
                  | Ok (v, e') => (Ok v, e')
                  | Err cs => (Err cs, e)
                  | Panic => (Panic, e)
                  end)).
  Proof. reflexivity. Qed.
  Lemma eval_args_nil : eval_args ANil = ret fo [].
  Proof. reflexivity. Qed.
  Lemma eval_args_cons : forall x rest,
    eval_args (ACons x rest) =
    mbind fo (eval_arg x) (fun v => mbind fo (eval_args rest) (fun vs => ret fo (v :: vs))).
  Proof. reflexivity. Qed.

  (* the monad: what a bind that produced something must have done *)
  Lemma mbind_ok : forall A B (m : M fo A) (f : A -> M fo B) e b e',
    mbind fo m f e = (Ok b, e') -> exists a e1, m e = (Ok a, e1) /\ f a e1 = (Ok b, e').
  Proof.
    intros A B m f e b e' H. unfold mbind in H.
    destruct (m e) as [[a|c|] e1]; try discriminate. eauto.
  Qed.
  Lemma mbind_step : forall A B (m : M fo A) (f : A -> M fo B) e a e1,
    m e = (Ok a, e1) -> mbind fo m f e = f a e1.
  Proof. intros. unfold mbind. rewrite H. reflexivity. Qed.
  Lemma mbind_err : forall A B (m : M fo A) (f : A -> M fo B) e c e1,
    m e = (Err c, e1) -> mbind fo m f e = (Err c, e1).
  Proof. intros. unfold mbind. rewrite H. reflexivity. Qed.
  Lemma mbind_panic : forall A B (m : M fo A) (f : A -> M fo B) e e1,
    m e = (Panic, e1) -> mbind fo m f e = (Panic, e1).
  Proof. intros. unfold mbind. rewrite H. reflexivity. Qed.

  (* ================= 10. compositionality of expressions ================= *)
  Lemma eval_mexpr_bin_ok : forall p o l r e v e',
    eval_mexpr (MBin p o l r) e = (Ok v, e') ->
    exists lv rv e1, eval_mexpr l e = (Ok lv, e1) /\ eval_mexpr r e1 = (Ok rv, e') /\
                     arith fo o lv rv = Ok v.
  Proof.
    intros p o l r e v e' H. rewrite eval_mexpr_bin in H.
    apply mbind_ok in H. destruct H as [lv [e1 [Hl H]]].
    apply mbind_ok in H. destruct H as [rv [e2 [Hr H]]].
    unfold lift in H. exists lv, rv, e1.
    destruct (arith fo o lv rv) as [w|c|]; cbn [wrap] in H; inversion H; subst. auto.
  Qed.

  Lemma eval_expr_cmp_ok : forall p o l r e v e',
    eval_expr (ECmp p o l r) e = (Ok v, e') ->
    exists lv rv e1 b, eval_expr l e = (Ok lv, e1) /\ eval_expr r e1 = (Ok rv, e') /\
                       compare fo o lv rv = Some b /\ v = VBool b.
  Proof.
    intros p o l r e v e' H. rewrite eval_expr_cmp in H.
    apply mbind_ok in H. destruct H as [lv [e1 [Hl H]]].
    apply mbind_ok in H. destruct H as [rv [e2 [Hr H]]].
    unfold lift in H. exists lv, rv, e1.
    destruct (compare fo o lv rv) as [b|]; inversion H; subst. eauto.
  Qed.

  Lemma eval_expr_logic_ok : forall p o l r e v e',
    eval_expr (ELogic p o l r) e = (Ok v, e') ->
    exists lv rv e1 b, eval_expr l e = (Ok lv, e1) /\ eval_expr r e1 = (Ok rv, e') /\
                       logic fo o lv rv = Some b /\ v = VBool b.
  Proof.
    intros p o l r e v e' H. rewrite eval_expr_logic in H.
    apply mbind_ok in H. destruct H as [lv [e1 [Hl H]]].
    apply mbind_ok in H. destruct H as [rv [e2 [Hr H]]].
    unfold lift in H. exists lv, rv, e1.
    destruct (logic fo o lv rv) as [b|]; inversion H; subst. eauto.
  Qed.

  Lemma eval_expr_math_ok : forall p m e v e',
    eval_expr (EMath p m) e = (Ok v, e') -> eval_mexpr m e = (Ok v, e') /\ v <> VNil.
  Proof.
    intros p m e v e' H. rewrite eval_expr_math in H.
    apply mbind_ok in H. destruct H as [w [e1 [Hm H]]]. unfold lift in H.
    destruct w; cbn in H; inversion H; subst; split; auto; discriminate.
  Qed.

  Lemma eval_expr_paren_ok : forall p neg x e v e',
    eval_expr (EParen p neg x) e = (Ok v, e') ->
    exists w, eval_expr x e = (Ok w, e') /\ finish fo p neg w = Ok v.
  Proof.
    intros p neg x e v e' H. rewrite eval_expr_paren in H.
    apply mbind_ok in H. destruct H as [w [e1 [Hm H]]]. unfold lift in H.
    exists w. inversion H; subst. auto.
  Qed.

  Lemma eval_expr_atom_ok : forall p neg a e v e',
    eval_expr (EAtom p neg a) e = (Ok v, e') ->
    exists w, eval_atom a e = (Ok w, e') /\ finish fo p neg w = Ok v.
  Proof.
    intros p neg x e v e' H. rewrite eval_expr_atom in H.
    apply mbind_ok in H. destruct H as [w [e1 [Hm H]]]. unfold lift in H.
    exists w. inversion H; subst. auto.
  Qed.

  (* both operands are always evaluated, left first: the forward direction *)
  Lemma eval_mexpr_bin_step : forall p o l r e lv e1 rv e2,
    eval_mexpr l e = (Ok lv, e1) -> eval_mexpr r e1 = (Ok rv, e2) ->
    eval_mexpr (MBin p o l r) e = (wrap p (arith fo o lv rv), e2).
  Proof.
    intros. rewrite eval_mexpr_bin. rewrite (mbind_step _ _ _ _ _ _ _ H).
    rewrite (mbind_step _ _ _ _ _ _ _ H0). reflexivity.
  Qed.
  Lemma eval_expr_cmp_step : forall p o l r e lv e1 rv e2,
    eval_expr l e = (Ok lv, e1) -> eval_expr r e1 = (Ok rv, e2) ->
    eval_expr (ECmp p o l r) e =
    (match compare fo o lv rv with Some b => Ok (VBool b) | None => Err [p] end, e2).
  Proof.
    intros. rewrite eval_expr_cmp. rewrite (mbind_step _ _ _ _ _ _ _ H).
    rewrite (mbind_step _ _ _ _ _ _ _ H0). reflexivity.
  Qed.
  Lemma eval_expr_logic_step : forall p o l r e lv e1 rv e2,
    eval_expr l e = (Ok lv, e1) -> eval_expr r e1 = (Ok rv, e2) ->
    eval_expr (ELogic p o l r) e =
    (match logic fo o lv rv with Some b => Ok (VBool b) | None => Err [p] end, e2).
  Proof.
    intros. rewrite eval_expr_logic. rewrite (mbind_step _ _ _ _ _ _ _ H).
    rewrite (mbind_step _ _ _ _ _ _ _ H0). reflexivity.
  Qed.

  (* error propagation *)
  Lemma mexpr_error_left : forall p o l r e c e1,
    eval_mexpr l e = (Err c, e1) -> eval_mexpr (MBin p o l r) e = (Err c, e1).
  Proof. intros. rewrite eval_mexpr_bin. apply mbind_err. assumption. Qed.
  Lemma mexpr_error_right : forall p o l r e lv e1 c e2,
    eval_mexpr l e = (Ok lv, e1) -> eval_mexpr r e1 = (Err c, e2) ->
    eval_mexpr (MBin p o l r) e = (Err c, e2).
  Proof.
    intros. rewrite eval_mexpr_bin. rewrite (mbind_step _ _ _ _ _ _ _ H).
    apply mbind_err. assumption.
  Qed.
  Lemma cmp_error_left : forall p o l r e c e1,
    eval_expr l e = (Err c, e1) -> eval_expr (ECmp p o l r) e = (Err c, e1).
  Proof. intros. rewrite eval_expr_cmp. apply mbind_err. assumption. Qed.
  Lemma cmp_error_right : forall p o l r e lv e1 c e2,
    eval_expr l e = (Ok lv, e1) -> eval_expr r e1 = (Err c, e2) ->
    eval_expr (ECmp p o l r) e = (Err c, e2).
  Proof.
    intros. rewrite eval_expr_cmp. rewrite (mbind_step _ _ _ _ _ _ _ H).
    apply mbind_err. assumption.
  Qed.
  Lemma logic_error_left : forall p o l r e c e1,
    eval_expr l e = (Err c, e1) -> eval_expr (ELogic p o l r) e = (Err c, e1).
  Proof. intros. rewrite eval_expr_logic. apply mbind_err. assumption. Qed.
  Lemma logic_error_right : forall p o l r e lv e1 c e2,
    eval_expr l e = (Ok lv, e1) -> eval_expr r e1 = (Err c, e2) ->
    eval_expr (ELogic p o l r) e = (Err c, e2).
  Proof.
    intros. rewrite eval_expr_logic. rewrite (mbind_step _ _ _ _ _ _ _ H).
    apply mbind_err. assumption.
  Qed.

  (* ================= unfolding equations: statements ================= *)
  Lemma exec_stmt_assign : forall a, exec_stmt (SAssign a) = of_unit fo (exec_assign a).
  Proof. reflexivity. Qed.
  Lemma exec_stmt_call : forall c,
    exec_stmt (SCall c) = of_unit fo (mbind fo (eval_call c) (fun _ => ret fo tt)).
  Proof. reflexivity. Qed.
  Lemma exec_stmt_if : forall c th elifs el,
    exec_stmt (SIf c th elifs el) =
    on_cond c (fun b =>
      if b then exec_block th
      else exec_elifs elifs (match el with Some bl => exec_block bl | None => fun e => (Normal, e) end)).
  Proof. reflexivity. Qed.
  Lemma exec_stmt_for : forall p init c step body e,
    exec_stmt (SFor p init c step body) e =
    match exec_assign init e with
    | (Err cs, e1) => (Failed cs, e1)
    | (Panic, e1) => (Panicked, e1)
    | (Ok _, e1) => for_loop c step (exec_block body) max_execute_num e1
    end.
  Proof. reflexivity. Qed.
  Lemma exec_stmt_forrange : forall p key coll body e,
    exec_stmt (SForRange p key coll body) e =
    match wrap p (resolve fo e coll) with
    | Err cs => (Failed cs, e)
    | Panic => (Panicked, e)
    | Ok r =>
      match range_keys fo r with
      | None => (Failed [p], e)
      | Some ks => range_loop key (exec_block body) ks e
      end
    end.
  Proof. reflexivity. Qed.
  Lemma exec_stmt_break : forall e, exec_stmt SBreak e = (Brk, e).
  Proof. reflexivity. Qed.
  Lemma exec_stmt_continue : forall e, exec_stmt SContinue e = (Cont, e).
  Proof. reflexivity. Qed.
  Lemma exec_stmt_conc : forall cs, exec_stmt (SConc cs) = conc_run cs false [].
  Proof. reflexivity. Qed.
  Lemma exec_block_eq : forall ss r e,
    exec_block (Block ss r) e =
    match exec_stmts ss e with
    | (Normal, e') =>
      match r with
      | None => (Normal, e')
      | Some None => (Returned None, e')
      | Some (Some x) =>
        match eval_expr x e' with
        | (Ok v, e'') => (Returned (match v with VNil => None | _ => Some v end), e'')
        | (Err cs, e'') => (Failed cs, e'')
        | (Panic, e'') => (Panicked, e'')
        end
      end
    | other => other
    end.
  Proof. reflexivity. Qed.
  Lemma exec_stmts_nil : forall e, exec_stmts SNil e = (Normal, e).
  Proof. reflexivity. Qed.
  Lemma exec_stmts_cons : forall s rest e,
    exec_stmts (SCons s rest) e =
    match exec_stmt s e with
    | (Normal, e') => exec_stmts rest e'
    | other => other
    end.
  Proof. reflexivity. Qed.
  Lemma exec_elifs_nil : forall otherwise, exec_elifs ENil otherwise = otherwise.
  Proof. reflexivity. Qed.
  Lemma exec_elifs_cons : forall c b rest otherwise,
    exec_elifs (ECons c b rest) otherwise =
    on_cond c (fun t => if t then exec_block b else exec_elifs rest otherwise).
  Proof. reflexivity. Qed.

  (* ================= conditions ================= *)
  Lemma on_cond_eq : forall c k e,
    on_cond c k e =
    match eval_expr c e with
    | (Ok v, e') => match as_bool fo v with
                    | Ok b => k b e' | Err cs => (Failed cs, e') | Panic => (Panicked, e') end
    | (Err cs, e') => (Failed cs, e')
    | (Panic, e') => (Panicked, e')
    end.
  Proof.
    intros. unfold Sem.on_cond, mbind, lift.
    destruct (eval_expr c e) as [[v|cs|] e']; reflexivity.
  Qed.

  Lemma on_cond_bool : forall c k e b e',
    eval_expr c e = (Ok (VBool b), e') -> on_cond c k e = k b e'.
  Proof. intros. rewrite on_cond_eq, H. reflexivity. Qed.
  Lemma on_cond_err : forall c k e cs e',
    eval_expr c e = (Err cs, e') -> on_cond c k e = (Failed cs, e').
  Proof. intros. rewrite on_cond_eq, H. reflexivity. Qed.
  Lemma on_cond_panic : forall c k e e',
    eval_expr c e = (Panic, e') -> on_cond c k e = (Panicked, e').
  Proof. intros. rewrite on_cond_eq, H. reflexivity. Qed.
  Lemma on_cond_nonbool : forall c k e v e',
    eval_expr c e = (Ok v, e') -> (forall b, v <> VBool b) -> on_cond c k e = (Panicked, e').
  Proof.
    intros. rewrite on_cond_eq, H. destruct v; try reflexivity. exfalso. eapply H0; eauto.
  Qed.

  Lemma on_cond_cases : forall c k e,
    (exists b e', eval_expr c e = (Ok (VBool b), e') /\ on_cond c k e = k b e') \/
    (exists cs e', eval_expr c e = (Err cs, e') /\ on_cond c k e = (Failed cs, e')) \/
    (exists e', on_cond c k e = (Panicked, e')).
  Proof.
    intros. rewrite on_cond_eq.
    destruct (eval_expr c e) as [[v|cs|] e']; [| right; left; eauto | right; right; eauto].
    destruct v; cbn [as_bool]; try (right; right; eauto; fail). left; eauto.
  Qed.

  (* ================= 13. sequencing ================= *)
  Lemma nothing_after_non_normal : forall ss more e f e',
    exec_stmts ss e = (f, e') -> f <> Normal -> exec_stmts (sapp ss more) e = (f, e').
  Proof.
    induction ss as [|s rest IH]; intros more e f e' H Hn.
    - rewrite exec_stmts_nil in H. inversion H; subst. congruence.
    - cbn [sapp]. rewrite exec_stmts_cons in *.
      destruct (exec_stmt s e) as [[] e1]; eauto.
  Qed.

  Lemma exec_stmts_app_normal : forall ss more e e',
    exec_stmts ss e = (Normal, e') -> exec_stmts (sapp ss more) e = exec_stmts more e'.
  Proof.
    induction ss as [|s rest IH]; intros more e e' H.
    - rewrite exec_stmts_nil in H. inversion H; subst. reflexivity.
    - cbn [sapp]. rewrite exec_stmts_cons in *.
      destruct (exec_stmt s e) as [[] e1]; try discriminate. eauto.
  Qed.

  Lemma exec_stmts_app : forall ss more e,
    exec_stmts (sapp ss more) e =
    match exec_stmts ss e with
    | (Normal, e') => exec_stmts more e'
    | other => other
    end.
  Proof.
    intros. destruct (exec_stmts ss e) as [f e'] eqn:H.
    destruct f; try (apply nothing_after_non_normal; [assumption | discriminate]).
    apply exec_stmts_app_normal; assumption.
  Qed.

  (* a statement after a non-normal one has no effect at all *)
  Lemma stmt_after_non_normal_skipped : forall s rest e f e',
    exec_stmt s e = (f, e') -> f <> Normal -> exec_stmts (SCons s rest) e = (f, e').
  Proof.
    intros. rewrite exec_stmts_cons, H. destruct f; try reflexivity. congruence.
  Qed.

  (* ================= 14. if / elif / else ================= *)
  Lemma if_true : forall c th elifs el e e',
    eval_expr c e = (Ok (VBool true), e') ->
    exec_stmt (SIf c th elifs el) e = exec_block th e'.
  Proof. intros. rewrite exec_stmt_if. rewrite (on_cond_bool _ _ _ _ _ H). reflexivity. Qed.

  Lemma if_false : forall c th elifs el e e',
    eval_expr c e = (Ok (VBool false), e') ->
    exec_stmt (SIf c th elifs el) e =
    exec_elifs elifs (match el with Some bl => exec_block bl | None => fun e => (Normal, e) end) e'.
  Proof. intros. rewrite exec_stmt_if. rewrite (on_cond_bool _ _ _ _ _ H). reflexivity. Qed.

  Lemma elifs_true : forall c b rest otherwise e e',
    eval_expr c e = (Ok (VBool true), e') ->
    exec_elifs (ECons c b rest) otherwise e = exec_block b e'.
  Proof. intros. rewrite exec_elifs_cons. rewrite (on_cond_bool _ _ _ _ _ H). reflexivity. Qed.

  Lemma elifs_false : forall c b rest otherwise e e',
    eval_expr c e = (Ok (VBool false), e') ->
    exec_elifs (ECons c b rest) otherwise e = exec_elifs rest otherwise e'.
  Proof. intros. rewrite exec_elifs_cons. rewrite (on_cond_bool _ _ _ _ _ H). reflexivity. Qed.

  Lemma elifs_none_true_else : forall el e,
    exec_elifs ENil (match el with Some bl => exec_block bl | None => fun e => (Normal, e) end) e =
    match el with Some bl => exec_block bl e | None => (Normal, e) end.
  Proof. intros. rewrite exec_elifs_nil. destruct el; reflexivity. Qed.

  Lemma if_condition_fails : forall c th elifs el e cs e',
    eval_expr c e = (Err cs, e') -> exec_stmt (SIf c th elifs el) e = (Failed cs, e').
  Proof. intros. rewrite exec_stmt_if. apply on_cond_err. assumption. Qed.

  (* ================= 15. for ================= *)
  Lemma for_loop_zero : forall c step body e, for_loop c step body O e = (Failed [], e).
  Proof. reflexivity. Qed.

  Lemma for_loop_succ : forall c step body n e,
    for_loop c step body (Datatypes.S n) e =
    on_cond c (fun b =>
      if b then
        fun e => match body e with
                 | (Normal, e') | (Cont, e') =>
                   (match exec_assign step e' with
                    | (Ok _, e'') => for_loop c step body n e''
                    | (Err cs, e'') => (Failed cs, e'')
                    | (Panic, e'') => (Panicked, e'')
                    end)
                 | (Brk, e') => (Normal, e')
                 | other => other
                 end
      else fun e => (Normal, e)) e.
  Proof. reflexivity. Qed.

  Lemma for_cond_false : forall c step body n e e1,
    eval_expr c e = (Ok (VBool false), e1) ->
    for_loop c step body (Datatypes.S n) e = (Normal, e1).
  Proof. intros. rewrite for_loop_succ, (on_cond_bool _ _ _ _ _ H). reflexivity. Qed.

  Lemma for_cond_fails : forall c step body n e cs e1,
    eval_expr c e = (Err cs, e1) ->
    for_loop c step body (Datatypes.S n) e = (Failed cs, e1).
  Proof. intros. rewrite for_loop_succ. apply on_cond_err. assumption. Qed.

  (* what happens after an iteration that ended normally or by continue *)
  Definition for_next (c : expr) (step : assignment) (body : St) (n : nat) (e2 : env) : flow * env :=
    match exec_assign step e2 with
    | (Ok _, e3) => for_loop c step body n e3
    | (Err cs, e3) => (Failed cs, e3)
    | (Panic, e3) => (Panicked, e3)
    end.

  Lemma for_body_normal : forall c step body n e e1 e2,
    eval_expr c e = (Ok (VBool true), e1) -> body e1 = (Normal, e2) ->
    for_loop c step body (Datatypes.S n) e = for_next c step body n e2.
  Proof. intros. rewrite for_loop_succ, (on_cond_bool _ _ _ _ _ H), H0. reflexivity. Qed.

  Lemma for_body_continue : forall c step body n e e1 e2,
    eval_expr c e = (Ok (VBool true), e1) -> body e1 = (Cont, e2) ->
    for_loop c step body (Datatypes.S n) e = for_next c step body n e2.
  Proof. intros. rewrite for_loop_succ, (on_cond_bool _ _ _ _ _ H), H0. reflexivity. Qed.

  Lemma for_body_break : forall c step body n e e1 e2,
    eval_expr c e = (Ok (VBool true), e1) -> body e1 = (Brk, e2) ->
    for_loop c step body (Datatypes.S n) e = (Normal, e2).
  Proof. intros. rewrite for_loop_succ, (on_cond_bool _ _ _ _ _ H), H0. reflexivity. Qed.

  Lemma for_body_returned : forall c step body n e e1 e2 v,
    eval_expr c e = (Ok (VBool true), e1) -> body e1 = (Returned v, e2) ->
    for_loop c step body (Datatypes.S n) e = (Returned v, e2).
  Proof. intros. rewrite for_loop_succ, (on_cond_bool _ _ _ _ _ H), H0. reflexivity. Qed.

  Lemma for_body_failed : forall c step body n e e1 e2 cs,
    eval_expr c e = (Ok (VBool true), e1) -> body e1 = (Failed cs, e2) ->
    for_loop c step body (Datatypes.S n) e = (Failed cs, e2).
  Proof. intros. rewrite for_loop_succ, (on_cond_bool _ _ _ _ _ H), H0. reflexivity. Qed.

  Lemma for_body_panicked : forall c step body n e e1 e2,
    eval_expr c e = (Ok (VBool true), e1) -> body e1 = (Panicked, e2) ->
    for_loop c step body (Datatypes.S n) e = (Panicked, e2).
  Proof. intros. rewrite for_loop_succ, (on_cond_bool _ _ _ _ _ H), H0. reflexivity. Qed.

  (* the loop never hands a break or a continue to its context *)
  Lemma for_loop_absorbs_break_continue : forall c step body n e f e',
    for_loop c step body n e = (f, e') -> f <> Brk /\ f <> Cont.
  Proof.
    intros c step body n. induction n as [|n IH]; intros e f e' H.
    - rewrite for_loop_zero in H. inversion H; subst. split; discriminate.
    - rewrite for_loop_succ in H.
      destruct (on_cond_cases c (fun b =>
        if b then
          fun e => match body e with
                   | (Normal, e') | (Cont, e') =>
                     (match exec_assign step e' with
                      | (Ok _, e'') => for_loop c step body n e''
                      | (Err cs, e'') => (Failed cs, e'')
                      | (Panic, e'') => (Panicked, e'')
                      end)
                   | (Brk, e') => (Normal, e')
                   | other => other
                   end
        else fun e => (Normal, e)) e) as [[b [e1 [_ E]]]|[[cs [e1 [_ E]]]|[e1 E]]];
        rewrite E in H; clear E.
      2,3: inversion H; subst; split; discriminate.
      destruct b; [|inversion H; subst; split; discriminate].
      destruct (body e1) as [[] e2]; try (inversion H; subst; split; discriminate).
      all: destruct (exec_assign step e2) as [[u|cs|] e3]; try (inversion H; subst; split; discriminate).
      all: eapply IH; eauto.
  Qed.

  (* ================= 16. forRange ================= *)
  Lemma range_loop_nil : forall key body e, range_loop key body [] e = (Normal, e).
  Proof. reflexivity. Qed.

  Lemma range_loop_cons : forall key body k ks e,
    range_loop key body (k :: ks) e =
    match set_value fo e key k with
    | Err cs => (Failed cs, e)
    | Panic => (Panicked, e)
    | Ok e1 =>
      match body e1 with
      | (Normal, e2) | (Cont, e2) => range_loop key body ks e2
      | (Brk, e2) => (Normal, e2)
      | other => other
      end
    end.
  Proof. reflexivity. Qed.

  Lemma range_body_normal : forall key body k ks e e1 e2,
    set_value fo e key k = Ok e1 -> body e1 = (Normal, e2) ->
    range_loop key body (k :: ks) e = range_loop key body ks e2.
  Proof. intros. rewrite range_loop_cons, H, H0. reflexivity. Qed.
  Lemma range_body_continue : forall key body k ks e e1 e2,
    set_value fo e key k = Ok e1 -> body e1 = (Cont, e2) ->
    range_loop key body (k :: ks) e = range_loop key body ks e2.
  Proof. intros. rewrite range_loop_cons, H, H0. reflexivity. Qed.
  Lemma range_body_break : forall key body k ks e e1 e2,
    set_value fo e key k = Ok e1 -> body e1 = (Brk, e2) ->
    range_loop key body (k :: ks) e = (Normal, e2).
  Proof. intros. rewrite range_loop_cons, H, H0. reflexivity. Qed.
  Lemma range_body_returned : forall key body k ks e e1 e2 v,
    set_value fo e key k = Ok e1 -> body e1 = (Returned v, e2) ->
    range_loop key body (k :: ks) e = (Returned v, e2).
  Proof. intros. rewrite range_loop_cons, H, H0. reflexivity. Qed.
  Lemma range_body_failed : forall key body k ks e e1 e2 cs,
    set_value fo e key k = Ok e1 -> body e1 = (Failed cs, e2) ->
    range_loop key body (k :: ks) e = (Failed cs, e2).
  Proof. intros. rewrite range_loop_cons, H, H0. reflexivity. Qed.
  Lemma range_body_panicked : forall key body k ks e e1 e2,
    set_value fo e key k = Ok e1 -> body e1 = (Panicked, e2) ->
    range_loop key body (k :: ks) e = (Panicked, e2).
  Proof. intros. rewrite range_loop_cons, H, H0. reflexivity. Qed.
  Lemma range_key_unassignable : forall key body k ks e cs,
    set_value fo e key k = Err cs -> range_loop key body (k :: ks) e = (Failed cs, e).
  Proof. intros. rewrite range_loop_cons, H. reflexivity. Qed.

  Lemma range_loop_absorbs_break_continue : forall key body ks e f e',
    range_loop key body ks e = (f, e') -> f <> Brk /\ f <> Cont.
  Proof.
    intros key body ks. induction ks as [|k ks IH]; intros e f e' H.
    - rewrite range_loop_nil in H. inversion H; subst. split; discriminate.
    - rewrite range_loop_cons in H.
      destruct (set_value fo e key k) as [e1|cs|]; try (inversion H; subst; split; discriminate).
      destruct (body e1) as [[] e2]; try (inversion H; subst; split; discriminate); eapply IH; eauto.
  Qed.

  (* the iterations of a run in which no iteration breaks, returns or fails:
     [visits key body ks e e'] = the keys of ks are bound to [key] one after the other, in
     order, the body runs once for each, and e' is the final environment *)
  Inductive visits (key : string) (body : St) : list value -> env -> env -> Prop :=
  | visits_nil : forall e, visits key body [] e e
  | visits_cons : forall k ks e e1 f e2 e3,
      set_value fo e key k = Ok e1 -> body e1 = (f, e2) -> (f = Normal \/ f = Cont) ->
      visits key body ks e2 e3 -> visits key body (k :: ks) e e3.

  Lemma forrange_each_key_once : forall key body ks e e',
    visits key body ks e e' -> range_loop key body ks e = (Normal, e').
  Proof.
    intros key body ks e e' H. induction H.
    - reflexivity.
    - rewrite range_loop_cons, H, H0. destruct H1; subst; assumption.
  Qed.

  (* conversely: when the body always ends normally or by continue and the key variable is
     assignable, the loop is exactly such a visit of all keys *)
  Lemma forrange_total_visit : forall key body ks e,
    (forall e k, In k ks -> exists e1, set_value fo e key k = Ok e1) ->
    (forall e, fst (body e) = Normal \/ fst (body e) = Cont) ->
    exists e', visits key body ks e e' /\ range_loop key body ks e = (Normal, e').
  Proof.
    intros key body ks. induction ks as [|k ks IH]; intros e Hs Hb.
    - exists e. split; [constructor | reflexivity].
    - destruct (Hs e k (or_introl eq_refl)) as [e1 H1].
      destruct (body e1) as [f e2] eqn:H2.
      assert (Hf : f = Normal \/ f = Cont) by (specialize (Hb e1); rewrite H2 in Hb; exact Hb).
      destruct (IH e2) as [e' [V R]]; [intros; apply Hs; right; assumption | assumption |].
      exists e'. split; [econstructor; eauto|].
      rewrite range_loop_cons, H1, H2. destruct Hf; subst; assumption.
  Qed.

  Lemma range_keys_slice : forall isarr et elems,
    range_keys fo (RObj (HSeq false isarr et elems)) =
    Some (map (fun i => @VInt fo KI (Z.of_nat i)) (seq 0 (length elems))).
  Proof. reflexivity. Qed.

  Lemma range_keys_map : forall kt et entries,
    range_keys fo (RObj (HMap false kt et entries)) = Some (map fst entries).
  Proof. reflexivity. Qed.

  Lemma slice_keys_length : forall n,
    length (map (fun i => @VInt fo KI (Z.of_nat i)) (seq 0 n)) = n.
  Proof. intros. rewrite map_length, seq_length. reflexivity. Qed.

  Lemma slice_keys_nth : forall n i, (i < n)%nat ->
    nth_error (map (fun i => @VInt fo KI (Z.of_nat i)) (seq 0 n)) i = Some (VInt KI (Z.of_nat i)).
  Proof.
    intros. rewrite nth_error_map.
    rewrite (nth_error_nth' _ O) by (rewrite seq_length; assumption).
    rewrite seq_nth by assumption. reflexivity.
  Qed.

  Lemma slice_keys_nodup : forall n,
    NoDup (map (fun i => @VInt fo KI (Z.of_nat i)) (seq 0 n)).
  Proof.
    intros. apply FinFun.Injective_map_NoDup; [|apply seq_NoDup].
    intros a b H. inversion H. lia.
  Qed.

  (* ================= 17. return from any depth ================= *)
  Lemma block_returned_in_stmts : forall ss r e v e',
    exec_stmts ss e = (Returned v, e') -> exec_block (Block ss r) e = (Returned v, e').
  Proof. intros. rewrite exec_block_eq, H. reflexivity. Qed.

  Lemma stmts_returned_head : forall s rest e v e',
    exec_stmt s e = (Returned v, e') -> exec_stmts (SCons s rest) e = (Returned v, e').
  Proof. intros. rewrite exec_stmts_cons, H. reflexivity. Qed.

  Lemma if_returned_then : forall c th elifs el e e1 v e',
    eval_expr c e = (Ok (VBool true), e1) -> exec_block th e1 = (Returned v, e') ->
    exec_stmt (SIf c th elifs el) e = (Returned v, e').
  Proof. intros. rewrite (if_true _ _ _ _ _ _ H). assumption. Qed.

  Lemma if_returned_else : forall c th bl e e1 v e',
    eval_expr c e = (Ok (VBool false), e1) -> exec_block bl e1 = (Returned v, e') ->
    exec_stmt (SIf c th ENil (Some bl)) e = (Returned v, e').
  Proof. intros. rewrite (if_false _ _ _ _ _ _ H). rewrite exec_elifs_nil. assumption. Qed.

  Lemma elifs_returned : forall c b rest otherwise e e1 v e',
    eval_expr c e = (Ok (VBool true), e1) -> exec_block b e1 = (Returned v, e') ->
    exec_elifs (ECons c b rest) otherwise e = (Returned v, e').
  Proof. intros. rewrite (elifs_true _ _ _ _ _ _ H). assumption. Qed.

  Lemma return_stmt_value : forall ss x e e1 v e2,
    exec_stmts ss e = (Normal, e1) -> eval_expr x e1 = (Ok v, e2) ->
    exec_block (Block ss (Some (Some x))) e =
    (Returned (match v with VNil => None | _ => Some v end), e2).
  Proof. intros. rewrite exec_block_eq, H, H0. reflexivity. Qed.

  Lemma return_stmt_bare : forall ss e e1,
    exec_stmts ss e = (Normal, e1) -> exec_block (Block ss (Some None)) e = (Returned None, e1).
  Proof. intros. rewrite exec_block_eq, H. reflexivity. Qed.

  (* ================= 18. assignment ================= *)
  Lemma compound_assignment_rmw : forall p n op o m e mv e1 sv v,
    aop_of op = Some o ->
    eval_mexpr m e = (Ok mv, e1) -> get_value fo e1 n = Ok sv -> arith fo o sv mv = Ok v ->
    exec_assign (mkAsg p (TVar n) op (RMath m)) e =
    match wrap p (set_value fo e1 n v) with
    | Ok e' => (Ok tt, e')
    | Err c => (Err c, e1)
    | Panic => (Err [p], e1)
    end.
  Proof.
    intros p n op o m e mv e1 sv v Ho Hm Hg Ha.
    unfold Sem.exec_assign. cbn [as_pos as_target as_op as_rhs]. rewrite Ho.
    unfold mrecover, mbind, mwrap, reads, lift, Sem.eval_rhs. rewrite Hm, Hg. cbn [wrap].
    rewrite Ha. cbn [wrap].
    destruct (set_value fo e1 n v); reflexivity.
  Qed.

  Lemma compound_assignment_read_fails : forall p n op o m e mv e1,
    aop_of op = Some o ->
    eval_mexpr m e = (Ok mv, e1) ->
    exec_assign (mkAsg p (TVar n) op (RMath m)) e =
    match get_value fo e1 n with
    | Ok sv =>
      match arith fo o sv mv with
      | Ok v => match set_value fo e1 n v with
                | Ok e' => (Ok tt, e') | Err c => (Err (p :: c), e1) | Panic => (Err [p], e1) end
      | Err c => (Err (p :: c), e1)
      | Panic => (Err [p], e1)
      end
    | Err c => (Err (p :: c), e1)
    | Panic => (Err [p], e1)
    end.
  Proof.
    intros p n op o m e mv e1 Ho Hm.
    unfold Sem.exec_assign. cbn [as_pos as_target as_op as_rhs]. rewrite Ho.
    unfold mrecover, mbind, mwrap, reads, lift, Sem.eval_rhs. rewrite Hm.
    destruct (get_value fo e1 n) as [sv|c|]; cbn [wrap recover]; try reflexivity.
    destruct (arith fo o sv mv) as [v|c|]; cbn [wrap recover]; try reflexivity.
    destruct (set_value fo e1 n v); reflexivity.
  Qed.

  Lemma plain_assignment_stores : forall p n op r e mv e1,
    aop_of op = None ->
    eval_rhs r e = (Ok mv, e1) ->
    exec_assign (mkAsg p (TVar n) op r) e =
    match wrap p (set_value fo e1 n mv) with
    | Ok e' => (Ok tt, e')
    | Err c => (Err c, e1)
    | Panic => (Err [p], e1)
    end.
  Proof.
    intros p n op r e mv e1 Ho Hm.
    unfold Sem.exec_assign. cbn [as_pos as_target as_op as_rhs]. rewrite Ho.
    unfold mrecover, mbind. rewrite Hm.
    destruct (set_value fo e1 n mv); reflexivity.
  Qed.

  Lemma assignment_rhs_fails : forall a e c e1,
    eval_rhs (as_rhs a) e = (Err c, e1) -> exec_assign a e = (Err c, e1).
  Proof.
    intros. unfold Sem.exec_assign, mrecover. rewrite (mbind_err _ _ _ _ _ _ _ H). reflexivity.
  Qed.

  (* ================= 19. one flat local scope ================= *)
  Lemma alookup_aset_same : forall V n (v : V) m, alookup n (aset n v m) = Some v.
  Proof.
    induction m as [|[k w] m IH]; cbn.
    - rewrite String.eqb_refl. reflexivity.
    - destruct (String.eqb k n) eqn:E; cbn; rewrite E; auto.
  Qed.

  Lemma alookup_aset_other : forall V n n' (v : V) m, n' <> n -> alookup n' (aset n v m) = alookup n' m.
  Proof.
    induction m as [|[k w] m IH]; intros Hn; cbn.
    - destruct (String.eqb_spec n n'); congruence.
    - destruct (String.eqb_spec k n); cbn.
      + subst. destruct (String.eqb_spec n n'); congruence.
      + destruct (String.eqb k n'); auto.
  Qed.

  Lemma set_local : forall e n v,
    path_of n = [n] -> alookup n (e_inj e) = None ->
    set_value fo e n v = Ok (mkEnv (e_inj e) (aset n v (e_loc e)) (e_trace e)).
  Proof. intros e n v Hp Hi. unfold set_value. rewrite Hp, Hi. reflexivity. Qed.

  Lemma get_local : forall e n,
    path_of n = [n] -> alookup n (e_inj e) = None ->
    get_value fo e n = match alookup n (e_loc e) with Some v => Ok v | None => Err [] end.
  Proof.
    intros e n Hp Hi. unfold get_value, resolve. rewrite Hp, Hi.
    destruct (alookup n (e_loc e)); reflexivity.
  Qed.

  Lemma get_after_set_local : forall e n v,
    path_of n = [n] -> alookup n (e_inj e) = None ->
    get_value fo (mkEnv (e_inj e) (aset n v (e_loc e)) (e_trace e)) n = Ok v.
  Proof.
    intros e n v Hp Hi. rewrite get_local by assumption. cbn [e_loc].
    rewrite alookup_aset_same. reflexivity.
  Qed.

  Lemma get_other_after_set_local : forall e n n' v,
    n' <> n -> path_of n' = [n'] ->
    get_value fo (mkEnv (e_inj e) (aset n v (e_loc e)) (e_trace e)) n' = get_value fo e n'.
  Proof.
    intros e n n' v Hn Hp. unfold get_value, resolve. rewrite Hp. cbn [e_inj e_loc].
    rewrite alookup_aset_other by assumption. reflexivity.
  Qed.

  (* ================= 20. the returned flag ================= *)
  Definition no_ret (s : St) : Prop := forall e f e', s e = (f, e') -> forall v, f <> Returned v.

  Lemma no_ret_on_cond : forall c k, (forall b, no_ret (k b)) -> no_ret (on_cond c k).
  Proof.
    intros c k Hk e f e' H v.
    destruct (on_cond_cases c k e) as [[b [e1 [_ E]]]|[[cs [e1 [_ E]]]|[e1 E]]]; rewrite E in H.
    - eapply Hk; eauto.
    - inversion H; discriminate.
    - inversion H; discriminate.
  Qed.

  Lemma no_ret_of_unit : forall m, no_ret (of_unit fo m).
  Proof.
    intros m e f e' H v. unfold of_unit in H.
    destruct (m e) as [[u|c|] e1]; inversion H; discriminate.
  Qed.

  Lemma no_ret_conc : forall cs failed acc, no_ret (conc_run cs failed acc).
  Proof.
    induction cs as [|c cs IH]; intros failed acc e f e' H v.
    - cbn in H. inversion H. destruct failed; discriminate.
    - cbn [Sem.conc_run] in H. destruct (conc_child c e) as [[u|c'|] e1]; eapply IH; eauto.
  Qed.

  Lemma no_ret_for_loop : forall c step body n, no_ret body -> no_ret (for_loop c step body n).
  Proof.
    intros c step body n Hb. induction n as [|n IH]; intros e f e' H v.
    - rewrite for_loop_zero in H. inversion H; discriminate.
    - rewrite for_loop_succ in H. revert e f e' H v. apply no_ret_on_cond.
      intros [|] e f e' H v; [|inversion H; discriminate].
      destruct (body e) as [g e1] eqn:B.
      destruct g; try (inversion H; discriminate).
      1,3: destruct (exec_assign step e1) as [[u|cs|] e2]; try (inversion H; discriminate);
           eapply IH; eauto.
      inversion H; subst. eapply Hb; eauto.
  Qed.

  Lemma no_ret_range_loop : forall key body ks, no_ret body -> no_ret (range_loop key body ks).
  Proof.
    intros key body ks Hb. induction ks as [|k ks IH]; intros e f e' H v.
    - rewrite range_loop_nil in H. inversion H; discriminate.
    - rewrite range_loop_cons in H.
      destruct (set_value fo e key k) as [e1|cs|]; try (inversion H; discriminate).
      destruct (body e1) as [g e2] eqn:B.
      destruct g; try (inversion H; discriminate); try (eapply IH; eauto; fail).
      inversion H; subst. eapply Hb; eauto.
  Qed.

  Lemma flag_only_from_return_mut :
    (forall s, has_return_stmt s = false -> no_ret (exec_stmt s)) /\
    (forall b, has_return_block b = false -> no_ret (exec_block b)) /\
    (forall ss, has_return_stmts ss = false -> no_ret (exec_stmts ss)) /\
    (forall l, has_return_elifs l = false ->
               forall otherwise, no_ret otherwise -> no_ret (exec_elifs l otherwise)).
  Proof.
    apply stmt_mutind.
    - intros a _. rewrite exec_stmt_assign. apply no_ret_of_unit.
    - intros c _. rewrite exec_stmt_call. apply no_ret_of_unit.
    - intros c th IHth elifs IHel el IHo H. cbn [has_return_stmt] in H.
      apply orb_false_elim in H. destruct H as [H H3]. apply orb_false_elim in H. destruct H as [H1 H2].
      rewrite exec_stmt_if. apply no_ret_on_cond. intros [|]; [auto|].
      apply IHel; [assumption|].
      destruct el as [bl|]; [apply IHo; assumption|].
      intros e f e' E v. inversion E; discriminate.
    - intros p init c step body IH H. cbn [has_return_stmt] in H.
      intros e f e' E v. rewrite exec_stmt_for in E.
      revert E. generalize max_execute_num. intros n E.
      destruct (exec_assign init e) as [[u|cs|] e1]; try (inversion E; discriminate).
      exact (no_ret_for_loop c step _ n (IH H) _ _ _ E v).
    - intros p key coll body IH H. cbn [has_return_stmt] in H.
      intros e f e' E v. rewrite exec_stmt_forrange in E.
      destruct (wrap p (resolve fo e coll)) as [r|cs|]; try (inversion E; discriminate).
      destruct (range_keys fo r) as [ks|]; try (inversion E; discriminate).
      exact (no_ret_range_loop key _ ks (IH H) _ _ _ E v).
    - intros _ e f e' E v. inversion E; discriminate.
    - intros _ e f e' E v. inversion E; discriminate.
    - intros cs _. rewrite exec_stmt_conc. apply no_ret_conc.
    - intros ss IH r H. cbn [has_return_block] in H.
      apply orb_false_elim in H. destruct H as [H1 H2]. destruct r; [discriminate|].
      intros e f e' E v. rewrite exec_block_eq in E.
      destruct (exec_stmts ss e) as [g e1] eqn:B.
      destruct g; inversion E; subst; try discriminate. eapply IH; eauto.
    - intros _ e f e' E v. inversion E; discriminate.
    - intros s IHs rest IHr H. cbn [has_return_stmts] in H.
      apply orb_false_elim in H. destruct H as [H1 H2].
      intros e f e' E v. rewrite exec_stmts_cons in E.
      destruct (exec_stmt s e) as [g e1] eqn:B.
      destruct g; try (inversion E; subst; eapply IHs; eauto; fail).
      eapply IHr; eauto.
    - intros _ otherwise Ho. rewrite exec_elifs_nil. assumption.
    - intros c b IHb rest IHr H otherwise Ho. cbn [has_return_elifs] in H.
      apply orb_false_elim in H. destruct H as [H1 H2].
      rewrite exec_elifs_cons. apply no_ret_on_cond. intros [|]; auto.
  Qed.

  Lemma flag_only_from_return : forall b, has_return_block b = false ->
    forall e f e', exec_block b e = (f, e') -> forall v, f <> Returned v.
  Proof. intros b H. exact (proj1 (proj2 flag_only_from_return_mut) b H). Qed.

  Lemma failed_return_is_not_returned : forall ss x e e1 c e2,
    exec_stmts ss e = (Normal, e1) -> eval_expr x e1 = (Err c, e2) ->
    exec_block (Block ss (Some (Some x))) e = (Failed c, e2).
  Proof. intros. rewrite exec_block_eq, H, H0. reflexivity. Qed.

  Lemma panicking_return_is_not_returned : forall ss x e e1 e2,
    exec_stmts ss e = (Normal, e1) -> eval_expr x e1 = (Panic, e2) ->
    exec_block (Block ss (Some (Some x))) e = (Panicked, e2).
  Proof. intros. rewrite exec_block_eq, H, H0. reflexivity. Qed.

  Lemma rule_return_iff : forall contained body inj tr v,
    fst (exec_rule contained body inj tr) = RRReturn v <->
    fst (exec_block body (mkEnv inj [] tr)) = Returned v.
  Proof.
    intros. unfold Sem.exec_rule.
    destruct (exec_block body (mkEnv inj [] tr)) as [[] e]; cbn [fst]; try destruct contained;
      split; intros H; try discriminate; inversion H; reflexivity.
  Qed.

  Lemma rule_noreturn_iff : forall contained body inj tr,
    fst (exec_rule contained body inj tr) = RRNoReturn <->
    fst (exec_block body (mkEnv inj [] tr)) = Normal.
  Proof.
    intros. unfold Sem.exec_rule.
    destruct (exec_block body (mkEnv inj [] tr)) as [[] e]; cbn [fst]; try destruct contained;
      split; intros H; try discriminate; reflexivity.
  Qed.

  Lemma rule_env_is_block_env : forall contained body inj tr,
    snd (exec_rule contained body inj tr) = snd (exec_block body (mkEnv inj [] tr)).
  Proof.
    intros. unfold Sem.exec_rule.
    destruct (exec_block body (mkEnv inj [] tr)) as [[] e]; reflexivity.
  Qed.

  (* ================= 21. locals start empty ================= *)
  Lemma exec_rule_eq : forall contained body inj tr,
    exec_rule contained body inj tr =
    let e0 := mkEnv inj [] tr in
    match exec_block body e0 with
    | (Normal, e) => (RRNoReturn, e)
    | (Returned v, e) => (RRReturn v, e)
    | (Brk, e) | (Cont, e) => (RRError [], e)
    | (Failed cs, e) => (RRError cs, e)
    | (Panicked, e) => (if contained then RRError [] else RRPanic, e)
    end.
  Proof. reflexivity. Qed.

  Lemma unassigned_local_is_undefined : forall n (inj : list (string * hobj fo)) tr,
    path_of n = [n] -> alookup n inj = None -> get_value fo (mkEnv inj [] tr) n = Err [].
  Proof. intros. rewrite get_local by assumption. reflexivity. Qed.
End SemFacts.

(* ================= 22. cited positions ================= *)
Fixpoint positions_atom (a : atom) : list pos :=
  match a with
  | AVar _ | AConst _ => []
  | ACall c => positions_call c
  | AMapVar m => [mv_pos m]
  end
with positions_call (c : call) : list pos :=
  match c with Call _ p _ a => p :: positions_args a end
with positions_args (a : args) : list pos :=
  match a with ANil => [] | ACons x r => positions_arg x ++ positions_args r end
with positions_arg (x : arg) : list pos :=
  match x with
  | GConst _ | GVar _ => []
  | GCall c => positions_call c
  | GMapVar m => [mv_pos m]
  | GExpr e => positions_expr e
  end
with positions_mexpr (m : mexpr) : list pos :=
  match m with
  | MAtom p a => p :: positions_atom a
  | MBin p _ l r => p :: positions_mexpr l ++ positions_mexpr r
  | MParen p m' => p :: positions_mexpr m'
  end
with positions_expr (x : expr) : list pos :=
  match x with
  | EMath p m => p :: positions_mexpr m
  | ECmp p _ l r => p :: positions_expr l ++ positions_expr r
  | ELogic p _ l r => p :: positions_expr l ++ positions_expr r
  | EAtom p _ a => p :: positions_atom a
  | EParen p _ e => p :: positions_expr e
  end.

Definition positions_rhs (r : rhs) : list pos :=
  match r with RMath m => positions_mexpr m | RExpr e => positions_expr e end.
Definition positions_target (t : target) : list pos :=
  match t with TVar _ => [] | TMap m => [mv_pos m] end.
Definition positions_assign (a : assignment) : list pos :=
  as_pos a :: positions_target (as_target a) ++ positions_rhs (as_rhs a).
Definition positions_cchild (c : cchild) : list pos :=
  match c with CCAsg a => positions_assign a | CCCall cl => positions_call cl end.

Fixpoint positions_stmt (s : stmt) : list pos :=
  match s with
  | SAssign a => positions_assign a
  | SCall c => positions_call c
  | SIf c th elifs el =>
    positions_expr c ++ positions_block th ++ positions_elifs elifs ++
    match el with Some b => positions_block b | None => [] end
  | SFor p init c step body =>
    p :: positions_assign init ++ positions_expr c ++ positions_assign step ++ positions_block body
  | SForRange p _ _ body => p :: positions_block body
  | SBreak | SContinue => []
  | SConc cs => flat_map positions_cchild cs
  end
with positions_block (b : block) : list pos :=
  match b with
  | Block ss r => positions_stmts ss ++ match r with Some (Some x) => positions_expr x | _ => [] end
  end
with positions_stmts (ss : stmts) : list pos :=
  match ss with SNil => [] | SCons s r => positions_stmt s ++ positions_stmts r end
with positions_elifs (l : eliflist) : list pos :=
  match l with ENil => [] | ECons c b r => positions_expr c ++ positions_block b ++ positions_elifs r end.

Ltac incl_tac :=
  let q := fresh "q" in let Hq := fresh "Hq" in
  intros q Hq; cbn [In app] in *; repeat rewrite in_app_iff in *; cbn [In] in *; tauto.

Ltac pos_cbn :=
  cbn [positions_atom positions_call positions_args positions_arg positions_mexpr positions_expr
       positions_rhs positions_target positions_assign positions_cchild
       positions_stmt positions_block positions_stmts positions_elifs].

Section Positions.
  Variable fo : float_ops.
  Variable meta : rule_meta.
  Variable real_of : Z -> Z -> fl fo.
  Notation value := (value fo).
  Notation env := (env fo).
  Notation flow := (flow fo).
  Notation St := (Sem.S fo).
  Notation eval_atom := (eval_atom fo meta real_of).
  Notation eval_call := (eval_call fo meta real_of).
  Notation eval_args := (eval_args fo meta real_of).
  Notation eval_arg := (eval_arg fo meta real_of).
  Notation eval_mexpr := (eval_mexpr fo meta real_of).
  Notation eval_expr := (eval_expr fo meta real_of).
  Notation eval_rhs := (eval_rhs fo meta real_of).
  Notation exec_assign := (exec_assign fo meta real_of).
  Notation on_cond := (on_cond fo meta real_of).
  Notation for_loop := (for_loop fo meta real_of).
  Notation range_loop := (range_loop fo).
  Notation conc_child := (conc_child fo meta real_of).
  Notation conc_run := (conc_run fo meta real_of).
  Notation exec_stmt := (exec_stmt fo meta real_of).
  Notation exec_block := (exec_block fo meta real_of).
  Notation exec_stmts := (exec_stmts fo meta real_of).
  Notation exec_elifs := (exec_elifs fo meta real_of).

  Definition errs_in {A} (m : M fo A) (L : list pos) : Prop :=
    forall e cs e', m e = (Err cs, e') -> incl cs L.

  Lemma errs_in_mono : forall A (m : M fo A) L L', errs_in m L -> incl L L' -> errs_in m L'.
  Proof. intros A m L L' H I e cs e' E. eapply incl_tran; [eapply H; eauto | assumption]. Qed.

  Lemma errs_in_mbind : forall A B (m : M fo A) (f : A -> M fo B) L,
    errs_in m L -> (forall a, errs_in (f a) L) -> errs_in (mbind fo m f) L.
  Proof.
    intros A B m f L Hm Hf e cs e' E. unfold mbind in E.
    destruct (m e) as [[a|c|] e1] eqn:M; [eapply Hf; eauto | | discriminate].
    inversion E; subst. eapply Hm; eauto.
  Qed.

  Lemma errs_in_ret : forall A (a : A) L, errs_in (ret fo a) L.
  Proof. intros A a L e cs e' E. inversion E. Qed.

  Lemma errs_in_lift : forall A (r : res A) L,
    (forall c, r = Err c -> incl c L) -> errs_in (lift fo r) L.
  Proof. intros A r L H e cs e' E. unfold lift in E. inversion E; subst. auto. Qed.

  Lemma errs_in_reads : forall A (f : env -> res A) L,
    (forall e c, f e = Err c -> incl c L) -> errs_in (reads fo f) L.
  Proof. intros A f L H e cs e' E. unfold reads in E. inversion E; subst. eauto. Qed.

  Lemma errs_in_mrecover : forall A p (m : M fo A) L,
    errs_in m L -> In p L -> errs_in (mrecover fo p m) L.
  Proof.
    intros A p m L H I e cs e' E. unfold mrecover in E.
    destruct (m e) as [[a|c|] e1] eqn:M; cbn [recover] in E; inversion E; subst.
    - eapply H; eauto.
    - intros q [<-|[]]. assumption.
  Qed.

  Lemma errs_in_mwrap : forall A p (m : M fo A) L,
    errs_in m L -> In p L -> errs_in (mwrap fo p m) L.
  Proof.
    intros A p m L H I e cs e' E. unfold mwrap in E.
    destruct (m e) as [[a|c|] e1] eqn:M; cbn [wrap] in E; inversion E; subst.
    intros q [<-|Hq]; [assumption | eapply H; eauto].
  Qed.

  Lemma incl_nil_any : forall (c L : list pos), c = [] -> incl c L.
  Proof. intros; subst. apply incl_nil_l. Qed.

  Lemma errs_in_get_value : forall n L, errs_in (reads fo (fun e => get_value fo e n)) L.
  Proof.
    intros. apply errs_in_reads. intros e c H. apply incl_nil_any. eapply get_value_err_nil; eauto.
  Qed.

  Lemma errs_in_mapvar_get : forall m L, In (mv_pos m) L ->
    errs_in (reads fo (fun e => mapvar_get fo e m)) L.
  Proof.
    intros. apply errs_in_reads. intros e c E. apply mapvar_get_err_cites in E. subst.
    intros q [<-|[]]. assumption.
  Qed.

  Lemma eval_errors_cite_positions_mut :
    (forall a, errs_in (eval_atom a) (positions_atom a)) /\
    (forall c, errs_in (eval_call c) (positions_call c)) /\
    (forall a, errs_in (eval_args a) (positions_args a)) /\
    (forall x, errs_in (eval_arg x) (positions_arg x)) /\
    (forall m, errs_in (eval_mexpr m) (positions_mexpr m)) /\
    (forall x, errs_in (eval_expr x) (positions_expr x)).
  Proof.
    apply expr_mutind.
    - (* AVar *) intros n. apply errs_in_get_value.
    - (* AConst *) intros c. apply errs_in_ret.
    - (* ACall *) intros c IH. exact IH.
    - (* AMapVar *) intros m. apply errs_in_mapvar_get. left; reflexivity.
    - (* Call *) intros k p name a IH. rewrite eval_call_eq. pos_cbn.
      apply errs_in_mrecover; [|left; reflexivity].
      apply errs_in_mbind; [eapply errs_in_mono; [exact IH | incl_tac]|].
      intros vs e cs e' E.
      destruct (exec_call fo e k name vs) as [[v e1]|c|] eqn:X; cbn [wrap] in E; inversion E; subst.
      apply exec_call_err_nil in X. subst. incl_tac.
    - (* ANil *) apply errs_in_ret.
    - (* ACons *) intros x IHx rest IHr. rewrite eval_args_cons. pos_cbn.
      apply errs_in_mbind; [eapply errs_in_mono; [exact IHx | incl_tac]|]. intros v.
      apply errs_in_mbind; [eapply errs_in_mono; [exact IHr | incl_tac]|]. intros vs.
      apply errs_in_ret.
    - (* GConst *) intros c. apply errs_in_ret.
    - (* GVar *) intros n. apply errs_in_get_value.
    - (* GCall *) intros c IH. exact IH.
    - (* GMapVar *) intros m. apply errs_in_mapvar_get. left; reflexivity.
    - (* GExpr *) intros e IH. exact IH.
    - (* MAtom *) intros p a IH. rewrite eval_mexpr_atom. pos_cbn. eapply errs_in_mono; [exact IH | incl_tac].
    - (* MBin *) intros p o l IHl r IHr. rewrite eval_mexpr_bin. pos_cbn.
      apply errs_in_mbind; [eapply errs_in_mono; [exact IHl | incl_tac]|]. intros lv.
      apply errs_in_mbind; [eapply errs_in_mono; [exact IHr | incl_tac]|]. intros rv.
      apply errs_in_lift. intros c E. apply wrap_err_inv in E. destruct E as [c' [E ->]].
      apply arith_err_nil in E. subst. incl_tac.
    - (* MParen *) intros p m IH. rewrite eval_mexpr_paren. pos_cbn. eapply errs_in_mono; [exact IH | incl_tac].
    - (* EMath *) intros p m IH. rewrite eval_expr_math. pos_cbn.
      apply errs_in_mbind; [eapply errs_in_mono; [exact IH | incl_tac]|]. intros v.
      apply errs_in_lift. intros c E. destruct v; cbn in E; inversion E; subst. incl_tac.
    - (* ECmp *) intros p o l IHl r IHr. rewrite eval_expr_cmp. pos_cbn.
      apply errs_in_mbind; [eapply errs_in_mono; [exact IHl | incl_tac]|]. intros lv.
      apply errs_in_mbind; [eapply errs_in_mono; [exact IHr | incl_tac]|]. intros rv.
      apply errs_in_lift. intros c E. destruct (compare fo o lv rv); inversion E; subst. incl_tac.
    - (* ELogic *) intros p o l IHl r IHr. rewrite eval_expr_logic. pos_cbn.
      apply errs_in_mbind; [eapply errs_in_mono; [exact IHl | incl_tac]|]. intros lv.
      apply errs_in_mbind; [eapply errs_in_mono; [exact IHr | incl_tac]|]. intros rv.
      apply errs_in_lift. intros c E. destruct (logic fo o lv rv); inversion E; subst. incl_tac.
    - (* EAtom *) intros p neg a IH. rewrite eval_expr_atom. pos_cbn.
      apply errs_in_mbind; [eapply errs_in_mono; [exact IH | incl_tac]|]. intros v.
      apply errs_in_lift. intros c E. destruct v, neg; cbn in E; inversion E; subst; incl_tac.
    - (* EParen *) intros p neg x IH. rewrite eval_expr_paren. pos_cbn.
      apply errs_in_mbind; [eapply errs_in_mono; [exact IH | incl_tac]|]. intros v.
      apply errs_in_lift. intros c E. destruct v, neg; cbn in E; inversion E; subst; incl_tac.
  Qed.

  Definition atom_errs := proj1 eval_errors_cite_positions_mut.
  Definition call_errs := proj1 (proj2 eval_errors_cite_positions_mut).
  Definition args_errs := proj1 (proj2 (proj2 eval_errors_cite_positions_mut)).
  Definition arg_errs := proj1 (proj2 (proj2 (proj2 eval_errors_cite_positions_mut))).
  Definition mexpr_errs := proj1 (proj2 (proj2 (proj2 (proj2 eval_errors_cite_positions_mut)))).
  Definition expr_errs := proj2 (proj2 (proj2 (proj2 (proj2 eval_errors_cite_positions_mut)))).

  Lemma assign_errs : forall a, errs_in (exec_assign a) (positions_assign a).
  Proof.
    intros [p t op r]. unfold Sem.exec_assign. cbn [as_pos as_target as_op as_rhs]. cbv zeta.
    unfold positions_assign. cbn [as_pos as_target as_op as_rhs].
    apply errs_in_mrecover; [|left; reflexivity].
    apply errs_in_mbind.
    { destruct r; cbn [Sem.eval_rhs positions_rhs];
        (eapply errs_in_mono; [first [apply mexpr_errs | apply expr_errs] | incl_tac]). }
    intros mv.
    assert (ST : forall v, errs_in (fun e : env =>
              match t with
              | TVar n => match wrap p (set_value fo e n v) with
                          | Ok e' => (Ok tt, e') | Err c => (Err c, e) | Panic => (Panic, e) end
              | TMap m => match wrap p (mapvar_set fo e m v) with
                          | Ok e' => (Ok tt, e') | Err c => (Err c, e) | Panic => (Panic, e) end
              end) (p :: positions_target t ++ positions_rhs r)).
    { intros v e cs e' E. destruct t as [n|m].
      - destruct (set_value fo e n v) eqn:X; cbn [wrap] in E; inversion E; subst.
        apply set_value_err_nil in X. subst. incl_tac.
      - destruct (mapvar_set fo e m v) eqn:X; cbn [wrap] in E; inversion E; subst.
        apply mapvar_set_err_nil in X. subst. incl_tac. }
    destruct (aop_of op) as [o|]; [|apply ST].
    apply errs_in_mbind.
    { apply errs_in_mwrap; [|left; reflexivity].
      destruct t as [n|m]; [apply errs_in_get_value | apply errs_in_mapvar_get].
      cbn [positions_target]. right. left. reflexivity. }
    intros sv. apply errs_in_mbind; [|apply ST].
    apply errs_in_lift. intros c E. apply wrap_err_inv in E. destruct E as [c' [E ->]].
    apply arith_err_nil in E. subst. incl_tac.
  Qed.

  Definition fails_in (s : St) (L : list pos) : Prop :=
    forall e cs e', s e = (Failed cs, e') -> incl cs L.

  Lemma fails_in_mono : forall s L L', fails_in s L -> incl L L' -> fails_in s L'.
  Proof. intros s L L' H I e cs e' E. eapply incl_tran; [eapply H; eauto | assumption]. Qed.

  Lemma fails_in_of_unit : forall m L, errs_in m L -> fails_in (of_unit fo m) L.
  Proof.
    intros m L H e cs e' E. unfold of_unit in E.
    destruct (m e) as [[u|c|] e1] eqn:M; inversion E; subst. eapply H; eauto.
  Qed.

  Lemma fails_in_on_cond : forall c k L,
    errs_in (eval_expr c) L -> (forall b, fails_in (k b) L) -> fails_in (on_cond c k) L.
  Proof.
    intros c k L Hc Hk e cs e' E.
    destruct (on_cond_cases fo meta real_of c k e) as [[b [e1 [_ X]]]|[[cs' [e1 [Y X]]]|[e1 X]]];
      rewrite X in E.
    - eapply Hk; eauto.
    - inversion E; subst. eapply Hc; eauto.
    - discriminate.
  Qed.

  Lemma fails_in_for_loop : forall c step body n L,
    errs_in (eval_expr c) L -> errs_in (exec_assign step) L -> fails_in body L ->
    fails_in (for_loop c step body n) L.
  Proof.
    intros c step body n L Hc Hs Hb. induction n as [|n IH]; intros e cs e' E.
    - rewrite for_loop_zero in E. inversion E; subst. apply incl_nil_l.
    - rewrite for_loop_succ in E. revert e cs e' E. apply fails_in_on_cond; [assumption|].
      intros [|] e cs e' E; [|discriminate].
      destruct (body e) as [g e1] eqn:B.
      destruct g; try discriminate.
      1,2: destruct (exec_assign step e1) as [[u|c'|] e2] eqn:A; try discriminate;
           [eapply IH; eauto | inversion E; subst; eapply Hs; eauto].
      inversion E; subst. eapply Hb; eauto.
  Qed.

  Lemma fails_in_range_loop : forall key body ks L,
    fails_in body L -> fails_in (range_loop key body ks) L.
  Proof.
    intros key body ks L Hb. induction ks as [|k ks IH]; intros e cs e' E.
    - rewrite range_loop_nil in E. discriminate.
    - rewrite range_loop_cons in E.
      destruct (set_value fo e key k) as [e1|c|] eqn:X; try discriminate.
      + destruct (body e1) as [g e2] eqn:B.
        destruct g; try discriminate; try (eapply IH; eauto; fail).
        inversion E; subst. eapply Hb; eauto.
      + inversion E; subst. apply set_value_err_nil in X. subst. apply incl_nil_l.
  Qed.

  Lemma cchild_errs : forall c, errs_in (conc_child c) (positions_cchild c).
  Proof.
    intros [a|cl]; cbn [Sem.conc_child positions_cchild].
    - apply assign_errs.
    - apply errs_in_mbind; [apply call_errs | intros; apply errs_in_ret].
  Qed.

  Lemma fails_in_conc : forall cs failed acc L,
    incl acc L -> incl (flat_map positions_cchild cs) L -> fails_in (conc_run cs failed acc) L.
  Proof.
    induction cs as [|c cs IH]; intros failed acc L Ha Hc e cs' e' E.
    - cbn in E. destruct failed; inversion E; subst. assumption.
    - cbn [Sem.conc_run] in E. cbn [flat_map] in Hc. apply incl_app_inv in Hc. destruct Hc as [Hc1 Hc2].
      destruct (conc_child c e) as [[u|c'|] e1] eqn:X.
      + eapply IH; [exact Ha | exact Hc2 | exact E].
      + eapply IH; [| exact Hc2 | exact E].
        apply incl_app; [assumption|]. eapply incl_tran; [eapply cchild_errs; eauto | assumption].
      + eapply IH; [exact Ha | exact Hc2 | exact E].
  Qed.

  Lemma failures_cite_positions_mut :
    (forall s, fails_in (exec_stmt s) (positions_stmt s)) /\
    (forall b, fails_in (exec_block b) (positions_block b)) /\
    (forall ss, fails_in (exec_stmts ss) (positions_stmts ss)) /\
    (forall l, forall otherwise L, fails_in otherwise L ->
               fails_in (exec_elifs l otherwise) (positions_elifs l ++ L)).
  Proof.
    apply stmt_mutind.
    - intros a. rewrite exec_stmt_assign. apply fails_in_of_unit. apply assign_errs.
    - intros c. rewrite exec_stmt_call. apply fails_in_of_unit.
      apply errs_in_mbind; [apply call_errs | intros; apply errs_in_ret].
    - intros c th IHth elifs IHel el IHo. rewrite exec_stmt_if. pos_cbn.
      apply fails_in_on_cond; [eapply errs_in_mono; [apply expr_errs | incl_tac]|].
      intros [|]; [eapply fails_in_mono; [exact IHth | incl_tac]|].
      eapply fails_in_mono; [apply IHel with (L := match el with Some b => positions_block b | None => [] end)|incl_tac].
      destruct el as [bl|]; [exact IHo|]. intros e cs e' E. discriminate.
    - intros p init c step body IH. pos_cbn. intros e cs e' E. rewrite exec_stmt_for in E.
      revert E. generalize max_execute_num. intros n E.
      destruct (exec_assign init e) as [[u|c'|] e1] eqn:A; try discriminate.
      + revert E. apply fails_in_for_loop.
        * eapply errs_in_mono; [apply expr_errs | incl_tac].
        * eapply errs_in_mono; [apply assign_errs | incl_tac].
        * eapply fails_in_mono; [exact IH | incl_tac].
      + inversion E; subst. eapply incl_tran; [eapply assign_errs; eauto | incl_tac].
    - intros p key coll body IH. pos_cbn. intros e cs e' E. rewrite exec_stmt_forrange in E.
      destruct (resolve fo e coll) as [r|c'|] eqn:R; cbn [wrap] in E; try discriminate.
      + destruct (range_keys fo r) as [ks|].
        * revert E. apply fails_in_range_loop. eapply fails_in_mono; [exact IH | incl_tac].
        * inversion E; subst. incl_tac.
      + inversion E; subst. apply resolve_err_nil in R. subst. incl_tac.
    - intros e cs e' E. discriminate.
    - intros e cs e' E. discriminate.
    - intros cs. rewrite exec_stmt_conc. pos_cbn. apply fails_in_conc; [apply incl_nil_l | apply incl_refl].
    - intros ss IH r e cs e' E. rewrite exec_block_eq in E. pos_cbn.
      destruct (exec_stmts ss e) as [g e1] eqn:B.
      destruct g; try discriminate.
      + destruct r as [[x|]|]; try discriminate.
        destruct (eval_expr x e1) as [[v|c'|] e2] eqn:X; try discriminate.
        inversion E; subst. eapply incl_tran; [eapply expr_errs; eauto | incl_tac].
      + inversion E; subst. eapply incl_tran; [eapply IH; eauto | incl_tac].
    - intros e cs e' E. discriminate.
    - intros s IHs rest IHr e cs e' E. rewrite exec_stmts_cons in E. pos_cbn.
      destruct (exec_stmt s e) as [g e1] eqn:B.
      destruct g; try discriminate.
      + eapply incl_tran; [eapply IHr; eauto | incl_tac].
      + inversion E; subst. eapply incl_tran; [eapply IHs; eauto | incl_tac].
    - intros otherwise L Ho. rewrite exec_elifs_nil. exact Ho.
    - intros c b IHb rest IHr otherwise L Ho. rewrite exec_elifs_cons. pos_cbn.
      apply fails_in_on_cond; [eapply errs_in_mono; [apply expr_errs | incl_tac]|].
      intros [|]; [eapply fails_in_mono; [exact IHb | incl_tac]|].
      eapply fails_in_mono; [apply IHr; exact Ho | incl_tac].
  Qed.

  Lemma cites_are_construct_positions : forall b e cs e',
    exec_block b e = (Failed cs, e') -> forall p, In p cs -> In p (positions_block b).
  Proof. intros b e cs e' E p Hp. exact (proj1 (proj2 failures_cite_positions_mut) b e cs e' E p Hp). Qed.

  Lemma rule_error_cites_construct_positions : forall contained body inj tr cs,
    fst (exec_rule fo meta real_of contained body inj tr) = RRError cs ->
    forall p, In p cs -> In p (positions_block body).
  Proof.
    intros contained body inj tr cs H p Hp. rewrite exec_rule_eq in H. cbv zeta in H.
    destruct (exec_block body (mkEnv inj [] tr)) as [f e'] eqn:B.
    destruct f; cbn [fst] in H; try discriminate.
    - inversion H; subst. destruct Hp.
    - inversion H; subst. destruct Hp.
    - inversion H; subst. eapply cites_are_construct_positions; eauto.
    - destruct contained; try discriminate. inversion H; subst. destruct Hp.
  Qed.
End Positions.

(* ---- the converse half: the construct that fails cites its own position ---- *)
Section CitesItself.
  Variable fo : float_ops.
  Variable meta : rule_meta.
  Variable real_of : Z -> Z -> fl fo.
  Notation value := (value fo).
  Notation env := (env fo).
  Notation eval_call := (eval_call fo meta real_of).
  Notation eval_args := (eval_args fo meta real_of).
  Notation eval_mexpr := (eval_mexpr fo meta real_of).
  Notation eval_expr := (eval_expr fo meta real_of).
  Notation eval_atom := (eval_atom fo meta real_of).
  Notation eval_rhs := (eval_rhs fo meta real_of).
  Notation exec_assign := (exec_assign fo meta real_of).

  Lemma arith_fault_cites_itself : forall p o l r e lv e1 rv e2 c,
    eval_mexpr l e = (Ok lv, e1) -> eval_mexpr r e1 = (Ok rv, e2) -> arith fo o lv rv = Err c ->
    eval_mexpr (MBin p o l r) e = (Err (p :: c), e2) /\ c = [].
  Proof.
    intros p o l r e lv e1 rv e2 c Hl Hr Ha.
    rewrite (eval_mexpr_bin_step fo meta real_of p o l r e lv e1 rv e2 Hl Hr), Ha.
    split; [reflexivity | eapply arith_err_nil; eauto].
  Qed.

  Lemma compare_fault_cites_itself : forall p o l r e lv e1 rv e2,
    eval_expr l e = (Ok lv, e1) -> eval_expr r e1 = (Ok rv, e2) -> compare fo o lv rv = None ->
    eval_expr (ECmp p o l r) e = (Err [p], e2).
  Proof.
    intros p o l r e lv e1 rv e2 Hl Hr Hc.
    rewrite (eval_expr_cmp_step fo meta real_of p o l r e lv e1 rv e2 Hl Hr), Hc. reflexivity.
  Qed.

  Lemma logic_fault_cites_itself : forall p o l r e lv e1 rv e2,
    eval_expr l e = (Ok lv, e1) -> eval_expr r e1 = (Ok rv, e2) -> logic fo o lv rv = None ->
    eval_expr (ELogic p o l r) e = (Err [p], e2).
  Proof.
    intros p o l r e lv e1 rv e2 Hl Hr Hc.
    rewrite (eval_expr_logic_step fo meta real_of p o l r e lv e1 rv e2 Hl Hr), Hc. reflexivity.
  Qed.

  Lemma invalid_value_cites_itself :
    (forall p m e e1, eval_mexpr m e = (Ok VNil, e1) -> eval_expr (EMath p m) e = (Err [p], e1)) /\
    (forall p neg a e e1, eval_atom a e = (Ok VNil, e1) -> eval_expr (EAtom p neg a) e = (Err [p], e1)) /\
    (forall p neg x e e1, eval_expr x e = (Ok VNil, e1) -> eval_expr (EParen p neg x) e = (Err [p], e1)).
  Proof.
    repeat split; intros.
    - rewrite eval_expr_math, (mbind_step fo _ _ _ _ _ _ _ H). reflexivity.
    - rewrite eval_expr_atom, (mbind_step fo _ _ _ _ _ _ _ H). reflexivity.
    - rewrite eval_expr_paren, (mbind_step fo _ _ _ _ _ _ _ H). reflexivity.
  Qed.

  Lemma failing_call_cites_itself : forall k p name a e vs e1,
    eval_args a e = (Ok vs, e1) ->
    (forall c, exec_call fo e1 k name vs = Err c ->
               eval_call (Call k p name a) e = (Err (p :: c), e1) /\ c = []) /\
    (exec_call fo e1 k name vs = Panic -> eval_call (Call k p name a) e = (Err [p], e1)).
  Proof.
    intros k p name a e vs e1 Ha. split.
    - intros c Hc. split; [|eapply exec_call_err_nil; eauto].
      rewrite eval_call_eq. unfold mrecover. rewrite (mbind_step fo _ _ _ _ _ _ _ Ha), Hc. reflexivity.
    - intros Hc.
      rewrite eval_call_eq. unfold mrecover. rewrite (mbind_step fo _ _ _ _ _ _ _ Ha), Hc. reflexivity.
  Qed.

  Lemma panicking_argument_cites_the_call : forall k p name a e e1,
    eval_args a e = (Panic, e1) -> eval_call (Call k p name a) e = (Err [p], e1).
  Proof.
    intros. rewrite eval_call_eq. unfold mrecover. rewrite (mbind_panic fo _ _ _ _ _ _ H). reflexivity.
  Qed.

  Lemma failing_assignment_cites_itself : forall a e mv e1,
    aop_of (as_op a) = None ->
    eval_rhs (as_rhs a) e = (Ok mv, e1) ->
    let r := match as_target a with
             | TVar n => set_value fo e1 n mv
             | TMap m => mapvar_set fo e1 m mv
             end in
    (forall c, r = Err c -> exec_assign a e = (Err (as_pos a :: c), e1) /\ c = []) /\
    (r = Panic -> exec_assign a e = (Err [as_pos a], e1)).
  Proof.
    intros [p t op rh] e mv e1 Ho Hr. cbn [as_pos as_target as_op as_rhs] in *.
    unfold Sem.exec_assign. cbn [as_pos as_target as_op as_rhs]. rewrite Ho.
    unfold mrecover. rewrite (mbind_step fo _ _ _ _ _ _ _ Hr).
    destruct t as [n|m]; cbv zeta; split.
    - intros c Hc. rewrite Hc. split; [reflexivity | eapply set_value_err_nil; eauto].
    - intros Hc. rewrite Hc. reflexivity.
    - intros c Hc. rewrite Hc. split; [reflexivity | eapply mapvar_set_err_nil; eauto].
    - intros Hc. rewrite Hc. reflexivity.
  Qed.

  Lemma panicking_assignment_cites_itself : forall a e e1,
    eval_rhs (as_rhs a) e = (Panic, e1) -> exec_assign a e = (Err [as_pos a], e1).
  Proof.
    intros. unfold Sem.exec_assign, mrecover. rewrite (mbind_panic fo _ _ _ _ _ _ H). reflexivity.
  Qed.
End CitesItself.

(* ================= 21. a list of rules executed one after the other ================= *)
(* only the injected objects and the call trace are threaded from one rule to the next *)
Fixpoint run_rules (fo : float_ops) (real_of : Z -> Z -> fl fo) (contained : bool) (rs : list rule)
         (inj : list (string * hobj fo)) (tr : list (string * list (value fo)))
  : list (rule_result fo) * (list (string * hobj fo) * list (string * list (value fo))) :=
  match rs with
  | [] => ([], (inj, tr))
  | r :: rest =>
    let out := exec_rule fo (r_meta r) real_of contained (r_body r) inj tr in
    let nxt := run_rules fo real_of contained rest (e_inj (snd out)) (e_trace (snd out)) in
    (fst out :: fst nxt, snd nxt)
  end.

Lemma run_rules_cons : forall fo real_of contained r rest inj tr,
  run_rules fo real_of contained (r :: rest) inj tr =
  let out := exec_rule fo (r_meta r) real_of contained (r_body r) inj tr in
  let nxt := run_rules fo real_of contained rest (e_inj (snd out)) (e_trace (snd out)) in
  (fst out :: fst nxt, snd nxt).
Proof. reflexivity. Qed.

Lemma run_rules_app : forall fo real_of contained rs1 rs2 inj tr,
  run_rules fo real_of contained (rs1 ++ rs2) inj tr =
  let a := run_rules fo real_of contained rs1 inj tr in
  let b := run_rules fo real_of contained rs2 (fst (snd a)) (snd (snd a)) in
  (fst a ++ fst b, snd b).
Proof.
  intros fo real_of contained rs1. induction rs1 as [|r rs1 IH]; intros rs2 inj tr.
  - cbn [app run_rules fst snd]. destruct (run_rules fo real_of contained rs2 inj tr); reflexivity.
  - cbn [app]. rewrite !run_rules_cons. cbv zeta. rewrite IH. cbv zeta. reflexivity.
Qed.

(* the i-th rule of the list runs by exec_rule (hence on an empty local map) on the injected
   data and trace left by the rules before it *)
Lemma run_rules_nth : forall fo real_of contained rs1 r rs2 inj tr,
  let a := run_rules fo real_of contained rs1 inj tr in
  nth_error (fst (run_rules fo real_of contained (rs1 ++ r :: rs2) inj tr)) (length rs1) =
  Some (fst (exec_rule fo (r_meta r) real_of contained (r_body r) (fst (snd a)) (snd (snd a)))).
Proof.
  intros. rewrite run_rules_app. cbv zeta. cbn [fst].
  assert (L : length (fst (run_rules fo real_of contained rs1 inj tr)) = length rs1).
  { clear. revert inj tr. induction rs1 as [|x rs1 IH]; intros; [reflexivity|].
    rewrite run_rules_cons. cbv zeta. cbn [fst length]. rewrite IH. reflexivity. }
  rewrite nth_error_app2 by (rewrite L; apply Nat.le_refl).
  rewrite L, Nat.sub_diag, run_rules_cons. reflexivity.
Qed.

(* ================= 21 (cont.). locals shadowed by injected names are invisible ================= *)
Section Sim.
  Variable fo : float_ops.
  Variable meta : rule_meta.
  Variable real_of : Z -> Z -> fl fo.
  Notation value := (value fo).
  Notation env := (env fo).
  Notation flow := (flow fo).
  Notation St := (Sem.S fo).

  (* two environments that differ only in locals shadowed by injected names *)
  Definition same_visible (e e' : env) : Prop :=
    e_inj e = e_inj e' /\ e_trace e = e_trace e' /\
    forall n, alookup n (e_inj e) = None -> alookup n (e_loc e) = alookup n (e_loc e').

  Lemma same_visible_refl : forall e, same_visible e e.
  Proof. intros; repeat split. Qed.

  Lemma alookup_aset_none : forall V n a (x : V) m, alookup n (aset a x m) = None -> alookup n m = None.
  Proof.
    induction m as [|[k w] m IH]; cbn; intros H; [reflexivity|].
    destruct (String.eqb k a) eqn:E; cbn in H.
    - destruct (String.eqb k n); [discriminate | assumption].
    - destruct (String.eqb k n); [discriminate | auto].
  Qed.

  Lemma resolve_sim : forall e e' n, same_visible e e' -> resolve fo e n = resolve fo e' n.
  Proof.
    intros e e' n [Hi [Ht Hl]]. unfold resolve. rewrite <- Hi.
    destruct (path_of n) as [|a [|b [|c [|d l]]]]; try reflexivity;
      destruct (alookup a (e_inj e)) eqn:A; try reflexivity; rewrite (Hl a A); reflexivity.
  Qed.

  Lemma get_value_sim : forall e e' n, same_visible e e' -> get_value fo e n = get_value fo e' n.
  Proof. intros. unfold get_value. rewrite (resolve_sim e e' n H). reflexivity. Qed.

  Lemma key_value_sim : forall e e' k, same_visible e e' -> key_value fo e k = key_value fo e' k.
  Proof. intros. destruct k; cbn; auto using get_value_sim. Qed.

  Lemma mapvar_get_sim : forall e e' m, same_visible e e' -> mapvar_get fo e m = mapvar_get fo e' m.
  Proof.
    intros e e' m H. unfold mapvar_get. rewrite (resolve_sim e e' _ H).
    destruct (resolve fo e' (mv_name m)) as [r|c|]; cbn [wrap bind]; try reflexivity.
    destruct r as [o| |]; try reflexivity. destruct o; try reflexivity.
    - destruct (mv_key m) eqn:K; try reflexivity; rewrite (key_value_sim e e' _ H); reflexivity.
    - destruct (mv_key m) eqn:K; try reflexivity. rewrite (get_value_sim e e' _ H). reflexivity.
  Qed.

  Definition res_env_sim (r r' : res env) : Prop :=
    match r, r' with
    | Ok a, Ok b => same_visible a b
    | Err c, Err c' => c = c'
    | Panic, Panic => True
    | _, _ => False
    end.

  Lemma sv_inj : forall e e' i', same_visible e e' ->
    (forall n, alookup n i' = None -> alookup n (e_inj e) = None) ->
    same_visible (mkEnv i' (e_loc e) (e_trace e)) (mkEnv i' (e_loc e') (e_trace e')).
  Proof.
    intros e e' i' [Hi [Ht Hl]] Hf. unfold same_visible. cbn [e_inj e_loc e_trace]. repeat split; auto.
  Qed.

  Lemma set_value_sim : forall e e' n v, same_visible e e' ->
    res_env_sim (set_value fo e n v) (set_value fo e' n v).
  Proof.
    intros e e' n v H. pose proof H as [Hi [Ht Hl]]. unfold set_value. rewrite <- Hi.
    destruct (path_of n) as [|a [|b [|c [|d l]]]]; cbn [res_env_sim]; try reflexivity.
    - destruct (alookup a (e_inj e)) as [o|] eqn:A.
      + destruct o; cbn [res_env_sim]; try reflexivity; try (destruct byptr; reflexivity).
        destruct (set_single fo t v) as [nv|c|]; cbn [bind res_env_sim]; try reflexivity.
        apply (sv_inj e e' _ H). intros n0. apply alookup_aset_none.
      + cbn [res_env_sim]. unfold same_visible. cbn [e_inj e_loc e_trace]. repeat split; auto.
        intros n0 N. destruct (String.eqb_spec n0 a).
        * subst. rewrite !alookup_aset_same. reflexivity.
        * rewrite !alookup_aset_other by assumption. auto.
    - destruct (alookup a (e_inj e)) as [o|] eqn:A; cbn [res_env_sim]; try reflexivity.
      destruct (set_field fo o b v) as [o'|c|]; cbn [bind res_env_sim]; try reflexivity.
      apply (sv_inj e e' _ H). intros n0. apply alookup_aset_none.
    - destruct (alookup a (e_inj e)) as [o|] eqn:A; cbn [res_env_sim]; try reflexivity.
      destruct (get_field fo o b) as [ob|c0|]; cbn [bind res_env_sim]; try reflexivity.
      destruct ob as [ob|]; cbn [res_env_sim]; try reflexivity.
      destruct ob; cbn [res_env_sim]; try reflexivity.
      match goal with |- res_env_sim (bind ?x _) _ => destruct x as [ob'|c1|] end;
        cbn [bind res_env_sim]; try reflexivity.
      destruct ob', o; cbn [res_env_sim]; try reflexivity.
      apply (sv_inj e e' _ H). intros n0. apply alookup_aset_none.
  Qed.

  Lemma res_env_sim_bind : forall A (x : res A) (f f' : A -> res env),
    (forall a, res_env_sim (f a) (f' a)) -> res_env_sim (bind x f) (bind x f').
  Proof. intros A x f f' H. destruct x; cbn [bind res_env_sim]; auto. Qed.

  Lemma update_obj_sim : forall e e' n o, same_visible e e' ->
    same_visible (update_obj fo e n o) (update_obj fo e' n o).
  Proof.
    intros e e' n o H. pose proof H as [Hi [Ht Hl]]. unfold update_obj. rewrite <- Hi.
    destruct (path_of n) as [|a [|b [|c [|d l]]]]; try assumption.
    - apply (sv_inj e e' _ H). intros n0. apply alookup_aset_none.
    - destruct (alookup a (e_inj e)) as [[]|]; try assumption.
      apply (sv_inj e e' _ H). intros n0. apply alookup_aset_none.
    - destruct (alookup a (e_inj e)) as [[]|]; try assumption.
      destruct (flookup fo b fields) as [[]|]; try assumption.
      apply (sv_inj e e' _ H). intros n0. apply alookup_aset_none.
  Qed.

  Ltac rs := cbn [res_env_sim bind]; auto.

  Lemma mapvar_set_sim : forall e e' m v, same_visible e e' ->
    res_env_sim (mapvar_set fo e m v) (mapvar_set fo e' m v).
  Proof.
    intros e e' m v H. unfold mapvar_set. rewrite (resolve_sim e e' _ H).
    apply res_env_sim_bind. intros r.
    destruct r as [o| |]; rs. destruct o; rs.
    - destruct (mv_key m) eqn:K.
      + rewrite (key_value_sim e e' _ H). apply res_env_sim_bind. intros kv.
        apply res_env_sim_bind. intros wk. apply res_env_sim_bind. intros wv.
        destruct (assignable fo kt wk && assignable fo et wv); rs. apply update_obj_sim; assumption.
      + destruct (sty_eqb kt TS); [|apply res_env_sim_bind; intros; rs].
        apply res_env_sim_bind. intros wv.
        destruct (assignable fo kt (VStr s) && assignable fo et wv); rs. apply update_obj_sim; assumption.
      + rewrite (key_value_sim e e' _ H). apply res_env_sim_bind. intros kv.
        apply res_env_sim_bind. intros wk. apply res_env_sim_bind. intros wv.
        destruct (assignable fo kt wk && assignable fo et wv); rs. apply update_obj_sim; assumption.
    - assert (ST : forall z, res_env_sim
        (bind (wanted fo et v) (fun wv =>
            if z <? 0 then Panic
            else if (Z.of_nat (length elems) <=? z) then Panic
            else if negb (assignable fo et wv) then Panic
            else if (isarray && negb byptr)%bool then Panic
            else Ok (update_obj fo e (mv_name m) (HSeq byptr isarray et (list_set (Z.to_nat z) wv elems)))))
        (bind (wanted fo et v) (fun wv =>
            if z <? 0 then Panic
            else if (Z.of_nat (length elems) <=? z) then Panic
            else if negb (assignable fo et wv) then Panic
            else if (isarray && negb byptr)%bool then Panic
            else Ok (update_obj fo e' (mv_name m) (HSeq byptr isarray et (list_set (Z.to_nat z) wv elems)))))).
      { intros z. apply res_env_sim_bind. intros wv.
        destruct (z <? 0); rs. destruct (Z.of_nat (length elems) <=? z); rs.
        destruct (negb (assignable fo et wv)); rs. destruct (isarray && negb byptr)%bool; rs.
        apply update_obj_sim; assumption. }
      destruct (mv_key m) eqn:K; rs.
      + generalize (ST z). destruct (z <? 0); [rs | intros X; exact X].
      + rewrite (get_value_sim e e' _ H). apply res_env_sim_bind. intros kv.
        destruct kv; [apply ST | ..]; apply res_env_sim_bind; intros; rs.
  Qed.

  Definition res_venv_sim (r r' : res (value * env)) : Prop :=
    match r, r' with
    | Ok (v, a), Ok (v', b) => v = v' /\ same_visible a b
    | Err c, Err c' => c = c'
    | Panic, Panic => True
    | _, _ => False
    end.

  Lemma invoke_sim : forall e e' f vs, same_visible e e' ->
    res_venv_sim (invoke fo e f vs) (invoke fo e' f vs).
  Proof.
    intros e e' f vs H. pose proof H as [Hi [Ht Hl]]. unfold invoke.
    destruct (convert_args fo (f_params f) vs) as [args|c|]; cbn [bind res_venv_sim]; auto.
    destruct (negb (Nat.eqb (length args) (length (f_params f)))); cbn [res_venv_sim]; auto.
    destruct (negb (forallb _ _)); cbn [res_venv_sim]; auto.
    assert (S' : same_visible (mkEnv (e_inj e) (e_loc e) (e_trace e ++ [(f_id f, args)]))
                              (mkEnv (e_inj e') (e_loc e') (e_trace e' ++ [(f_id f, args)]))).
    { unfold same_visible. cbn [e_inj e_loc e_trace]. rewrite Ht. repeat split; auto. }
    destruct (f_beh f); cbn [res_venv_sim]; auto.
  Qed.

  Lemma res_venv_sim_refl_noenv : forall r : res (value * env),
    match r with Ok _ => False | _ => True end -> res_venv_sim r r.
  Proof. destruct r; cbn; intros; auto. contradiction. Qed.

  Lemma exec_call_sim : forall e e' k n vs, same_visible e e' ->
    res_venv_sim (exec_call fo e k n vs) (exec_call fo e' k n vs).
  Proof.
    intros e e' k n vs H. pose proof H as [Hi [Ht Hl]]. unfold exec_call. rewrite <- Hi.
    destruct k; destruct (path_of n) as [|a [|b [|c [|d l]]]]; cbn [res_venv_sim]; auto.
    - destruct (alookup a (e_inj e)) as [o|] eqn:A.
      + destruct o; cbn [res_venv_sim]; auto. apply invoke_sim; assumption.
      + rewrite <- (Hl a A). destruct (alookup a (e_loc e)); cbn [res_venv_sim]; auto.
    - destruct (alookup a (e_inj e)) as [o|] eqn:A.
      + destruct o; cbn [res_venv_sim]; auto.
        destruct (find_method fo methods b); cbn [res_venv_sim]; auto. apply invoke_sim; assumption.
      + rewrite <- (Hl a A). destruct (alookup a (e_loc e)); cbn [res_venv_sim]; auto.
    - destruct (alookup a (e_inj e)) as [o|] eqn:A.
      + destruct (get_field fo o b) as [ob|c0|]; cbn [bind res_venv_sim]; auto.
        destruct ob as [[]|]; cbn [res_venv_sim]; auto.
        destruct (find_method fo methods c); cbn [res_venv_sim]; auto. apply invoke_sim; assumption.
      + rewrite <- (Hl a A). destruct (alookup a (e_loc e)); cbn [res_venv_sim]; auto.
  Qed.

  (* ---- the monad ---- *)
  Definition sim_M {A} (m : M fo A) : Prop :=
    forall e e', same_visible e e' -> fst (m e) = fst (m e') /\ same_visible (snd (m e)) (snd (m e')).

  Lemma sim_ret : forall A (a : A), sim_M (ret fo a).
  Proof. intros A a e e' H. split; auto. Qed.
  Lemma sim_lift : forall A (r : res A), sim_M (lift fo r).
  Proof. intros A a e e' H. split; auto. Qed.
  Lemma sim_reads : forall A (f : env -> res A),
    (forall e e', same_visible e e' -> f e = f e') -> sim_M (reads fo f).
  Proof. intros A f Hf e e' H. unfold reads. cbn [fst snd]. split; auto. Qed.
  Lemma sim_mbind : forall A B (m : M fo A) (f : A -> M fo B),
    sim_M m -> (forall a, sim_M (f a)) -> sim_M (mbind fo m f).
  Proof.
    intros A B m f Hm Hf e e' H. unfold mbind. destruct (Hm e e' H) as [E1 E2].
    destruct (m e) as [r1 e1], (m e') as [r1' e1']. cbn [fst snd] in *. subst r1'.
    destruct r1; cbn [fst snd]; auto. apply Hf; assumption.
  Qed.
  Lemma sim_mrecover : forall A p (m : M fo A), sim_M m -> sim_M (mrecover fo p m).
  Proof.
    intros A p m Hm e e' H. unfold mrecover. destruct (Hm e e' H) as [E1 E2].
    destruct (m e) as [r1 e1], (m e') as [r1' e1']. cbn [fst snd] in *. subst. auto.
  Qed.
  Lemma sim_mwrap : forall A p (m : M fo A), sim_M m -> sim_M (mwrap fo p m).
  Proof.
    intros A p m Hm e e' H. unfold mwrap. destruct (Hm e e' H) as [E1 E2].
    destruct (m e) as [r1 e1], (m e') as [r1' e1']. cbn [fst snd] in *. subst. auto.
  Qed.

  Lemma sim_eval_mut :
    (forall a, sim_M (eval_atom fo meta real_of a)) /\
    (forall c, sim_M (eval_call fo meta real_of c)) /\
    (forall a, sim_M (eval_args fo meta real_of a)) /\
    (forall x, sim_M (eval_arg fo meta real_of x)) /\
    (forall m, sim_M (eval_mexpr fo meta real_of m)) /\
    (forall x, sim_M (eval_expr fo meta real_of x)).
  Proof.
    apply expr_mutind.
    - intros n. apply sim_reads. intros; apply get_value_sim; assumption.
    - intros c. apply sim_ret.
    - intros c IH. exact IH.
    - intros m. apply sim_reads. intros; apply mapvar_get_sim; assumption.
    - intros k p name a IH. rewrite eval_call_eq. apply sim_mrecover. apply sim_mbind; [exact IH|].
      intros vs e e' H. pose proof (exec_call_sim e e' k name vs H) as X.
      destruct (exec_call fo e k name vs) as [[v1 a1]|c1|], (exec_call fo e' k name vs) as [[v2 a2]|c2|];
        cbn [res_venv_sim] in X; try contradiction; cbn [wrap fst snd].
      + destruct X; subst; auto.
      + subst; auto.
      + auto.
    - apply sim_ret.
    - intros x IHx rest IHr. rewrite eval_args_cons. apply sim_mbind; [exact IHx|]. intros v.
      apply sim_mbind; [exact IHr|]. intros vs. apply sim_ret.
    - intros c. apply sim_ret.
    - intros n. apply sim_reads. intros; apply get_value_sim; assumption.
    - intros c IH. exact IH.
    - intros m. apply sim_reads. intros; apply mapvar_get_sim; assumption.
    - intros e IH. exact IH.
    - intros p a IH. exact IH.
    - intros p o l IHl r IHr. rewrite eval_mexpr_bin. apply sim_mbind; [exact IHl|]. intros lv.
      apply sim_mbind; [exact IHr|]. intros rv. apply sim_lift.
    - intros p m IH. exact IH.
    - intros p m IH. rewrite eval_expr_math. apply sim_mbind; [exact IH|]. intros; apply sim_lift.
    - intros p o l IHl r IHr. rewrite eval_expr_cmp. apply sim_mbind; [exact IHl|]. intros lv.
      apply sim_mbind; [exact IHr|]. intros rv. apply sim_lift.
    - intros p o l IHl r IHr. rewrite eval_expr_logic. apply sim_mbind; [exact IHl|]. intros lv.
      apply sim_mbind; [exact IHr|]. intros rv. apply sim_lift.
    - intros p neg a IH. rewrite eval_expr_atom. apply sim_mbind; [exact IH|]. intros; apply sim_lift.
    - intros p neg x IH. rewrite eval_expr_paren. apply sim_mbind; [exact IH|]. intros; apply sim_lift.
  Qed.

  Definition sim_call := proj1 (proj2 sim_eval_mut).
  Definition sim_mexpr := proj1 (proj2 (proj2 (proj2 (proj2 sim_eval_mut)))).
  Definition sim_expr := proj2 (proj2 (proj2 (proj2 (proj2 sim_eval_mut)))).

  Lemma sim_assign : forall a, sim_M (exec_assign fo meta real_of a).
  Proof.
    intros [p t op r]. unfold exec_assign. cbn [as_pos as_target as_op as_rhs]. cbv zeta.
    apply sim_mrecover. apply sim_mbind.
    { destruct r; cbn [eval_rhs]; [apply sim_mexpr | apply sim_expr]. }
    intros mv.
    assert (ST : forall v, sim_M (fun e : env =>
              match t with
              | TVar n => match wrap p (set_value fo e n v) with
                          | Ok e' => (Ok tt, e') | Err c => (Err c, e) | Panic => (Panic, e) end
              | TMap m => match wrap p (mapvar_set fo e m v) with
                          | Ok e' => (Ok tt, e') | Err c => (Err c, e) | Panic => (Panic, e) end
              end)).
    { intros v e e' H. destruct t as [n|m].
      - pose proof (set_value_sim e e' n v H) as X.
        destruct (set_value fo e n v), (set_value fo e' n v); cbn [res_env_sim] in X; try contradiction;
          cbn [wrap fst snd]; subst; auto.
      - pose proof (mapvar_set_sim e e' m v H) as X.
        destruct (mapvar_set fo e m v), (mapvar_set fo e' m v); cbn [res_env_sim] in X; try contradiction;
          cbn [wrap fst snd]; subst; auto. }
    destruct (aop_of op) as [o|]; [|apply ST].
    apply sim_mbind.
    { apply sim_mwrap. destruct t; apply sim_reads; intros;
        [apply get_value_sim | apply mapvar_get_sim]; assumption. }
    intros sv. apply sim_mbind; [apply sim_lift | apply ST].
  Qed.

  (* ---- statements ---- *)
  Definition sim_S (s : St) : Prop :=
    forall e e', same_visible e e' -> fst (s e) = fst (s e') /\ same_visible (snd (s e)) (snd (s e')).

  Lemma sim_of_unit : forall m, sim_M m -> sim_S (of_unit fo m).
  Proof.
    intros m Hm e e' H. unfold of_unit. destruct (Hm e e' H) as [E1 E2].
    destruct (m e) as [r1 e1], (m e') as [r1' e1']. cbn [fst snd] in *. subst.
    destruct r1'; auto.
  Qed.

  Lemma sim_on_cond : forall c k, (forall b, sim_S (k b)) -> sim_S (on_cond fo meta real_of c k).
  Proof.
    intros c k Hk e e' H. rewrite !on_cond_eq. destruct (sim_expr c e e' H) as [E1 E2].
    destruct (eval_expr fo meta real_of c e) as [r1 e1], (eval_expr fo meta real_of c e') as [r1' e1'].
    cbn [fst snd] in *. subst. destruct r1'; auto.
    destruct (as_bool fo a); auto. apply Hk; assumption.
  Qed.

  Lemma sim_for_loop : forall c step body n, sim_S body -> sim_S (for_loop fo meta real_of c step body n).
  Proof.
    intros c step body n Hb. induction n as [|n IH].
    - intros e e' H. rewrite !for_loop_zero. auto.
    - intros e e' H. rewrite !for_loop_succ. revert e e' H. apply sim_on_cond.
      intros [|] e e' H; [|auto].
      destruct (Hb e e' H) as [E1 E2].
      destruct (body e) as [g e1], (body e') as [g' e1']. cbn [fst snd] in *. subst g'.
      destruct g; auto.
      all: destruct (sim_assign step e1 e1' E2) as [F1 F2];
           destruct (exec_assign fo meta real_of step e1) as [r2 e2],
                    (exec_assign fo meta real_of step e1') as [r2' e2']; cbn [fst snd] in *; subst r2';
           destruct r2; auto.
  Qed.

  Lemma sim_range_loop : forall key body ks, sim_S body -> sim_S (range_loop fo key body ks).
  Proof.
    intros key body ks Hb. induction ks as [|k ks IH]; intros e e' H.
    - rewrite !range_loop_nil. auto.
    - rewrite !range_loop_cons. pose proof (set_value_sim e e' key k H) as X.
      destruct (set_value fo e key k) as [a|c|], (set_value fo e' key k) as [a'|c'|];
        cbn [res_env_sim] in X; try contradiction; subst; auto.
      destruct (Hb a a' X) as [E1 E2].
      destruct (body a) as [g e1], (body a') as [g' e1']. cbn [fst snd] in *. subst g'.
      destruct g; auto.
  Qed.

  Lemma sim_conc : forall cs failed acc, sim_S (conc_run fo meta real_of cs failed acc).
  Proof.
    induction cs as [|c cs IH]; intros failed acc e e' H.
    - cbn. auto.
    - cbn [conc_run].
      assert (C : sim_M (conc_child fo meta real_of c)).
      { destruct c; cbn [conc_child]; [apply sim_assign|].
        apply sim_mbind; [apply sim_call | intros; apply sim_ret]. }
      destruct (C e e' H) as [E1 E2].
      destruct (conc_child fo meta real_of c e) as [r1 e1], (conc_child fo meta real_of c e') as [r1' e1'].
      cbn [fst snd] in *. subst r1'. destruct r1; apply IH; assumption.
  Qed.

  Lemma sim_stmt_mut :
    (forall s, sim_S (exec_stmt fo meta real_of s)) /\
    (forall b, sim_S (exec_block fo meta real_of b)) /\
    (forall ss, sim_S (exec_stmts fo meta real_of ss)) /\
    (forall l, forall otherwise, sim_S otherwise -> sim_S (exec_elifs fo meta real_of l otherwise)).
  Proof.
    apply stmt_mutind.
    - intros a. rewrite exec_stmt_assign. apply sim_of_unit, sim_assign.
    - intros c. rewrite exec_stmt_call. apply sim_of_unit.
      apply sim_mbind; [apply sim_call | intros; apply sim_ret].
    - intros c th IHth elifs IHel el IHo. rewrite exec_stmt_if. apply sim_on_cond.
      intros [|]; [exact IHth|]. apply IHel. destruct el; [exact IHo|]. intros e e' H; auto.
    - intros p init c step body IH e e' H. rewrite !exec_stmt_for.
      generalize max_execute_num. intros n.
      destruct (sim_assign init e e' H) as [E1 E2].
      destruct (exec_assign fo meta real_of init e) as [r1 e1],
               (exec_assign fo meta real_of init e') as [r1' e1']. cbn [fst snd] in *. subst r1'.
      destruct r1; auto. apply sim_for_loop; assumption.
    - intros p key coll body IH e e' H. rewrite !exec_stmt_forrange.
      rewrite (resolve_sim e e' coll H).
      destruct (wrap p (resolve fo e' coll)); auto.
      destruct (range_keys fo a); auto. apply sim_range_loop; assumption.
    - intros e e' H. auto.
    - intros e e' H. auto.
    - intros cs. rewrite exec_stmt_conc. apply sim_conc.
    - intros ss IH r e e' H. rewrite !exec_block_eq. destruct (IH e e' H) as [E1 E2].
      destruct (exec_stmts fo meta real_of ss e) as [g e1],
               (exec_stmts fo meta real_of ss e') as [g' e1']. cbn [fst snd] in *. subst g'.
      destruct g; auto. destruct r as [[x|]|]; auto.
      destruct (sim_expr x e1 e1' E2) as [F1 F2].
      destruct (eval_expr fo meta real_of x e1) as [r2 e2],
               (eval_expr fo meta real_of x e1') as [r2' e2']. cbn [fst snd] in *. subst r2'.
      destruct r2; auto.
    - intros e e' H. auto.
    - intros s IHs rest IHr e e' H. rewrite !exec_stmts_cons. destruct (IHs e e' H) as [E1 E2].
      destruct (exec_stmt fo meta real_of s e) as [g e1],
               (exec_stmt fo meta real_of s e') as [g' e1']. cbn [fst snd] in *. subst g'.
      destruct g; auto.
    - intros otherwise Ho. rewrite exec_elifs_nil. exact Ho.
    - intros c b IHb rest IHr otherwise Ho. rewrite exec_elifs_cons. apply sim_on_cond.
      intros [|]; [exact IHb | apply IHr; exact Ho].
  Qed.

  (* locals bound only to names that are injected too are invisible *)
  Lemma result_independent_of_foreign_locals : forall b inj loc tr,
    (forall n, alookup n inj = None -> alookup n loc = None) ->
    fst (exec_block fo meta real_of b (mkEnv inj loc tr)) =
    fst (exec_block fo meta real_of b (mkEnv inj [] tr)) /\
    same_visible (snd (exec_block fo meta real_of b (mkEnv inj loc tr)))
                 (snd (exec_block fo meta real_of b (mkEnv inj [] tr))).
  Proof.
    intros b inj loc tr H. apply (proj1 (proj2 sim_stmt_mut) b).
    unfold same_visible. cbn [e_inj e_loc e_trace]. repeat split. assumption.
  Qed.
End Sim.
