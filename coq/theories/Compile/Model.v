(* Compile/Model.v — the five compile entry points as "which diagnostics of the front end do
   they inspect, and when do they install the result" (C10).  The ANTLR lexer + parser +
   listener are a black box [front : text -> diag]; the theorems hold for ANY front end.
   The records describing the entry points are regenerated from the source on every run by
   the translator (gen/Gen_Compile.v); the per-run obligation is [forallb ep_wf gen_eps = true]. *)
From Coq Require Import String List Bool Arith ZArith.
From GV Require Import Rules.KcModel.
Import ListNotations.

Record diag := mkDiag {
  d_blank  : bool;          (* strings.TrimSpace(text) == "" *)
  d_lex    : nat;           (* errors reported by the lexer's error listener *)
  d_parse  : nat;           (* errors reported by the parser's error listener *)
  d_listen : nat;           (* errors recorded by the tree listener (unknown tokens, duplicate names, bad literals) *)
  d_rules  : list rule      (* the rules the listener built *)
}.

Inductive install := Replace | Merge.

Record ep := mkEp {
  ep_name          : string;
  ep_checks_lex    : bool;   (* attaches an error listener to the LEXER and tests its list *)
  ep_checks_parse  : bool;
  ep_checks_listen : bool;
  ep_rejects_empty : bool;   (* a text without any rule is rejected *)
  ep_checks_first  : bool;   (* nothing is installed before all tests have passed *)
  ep_install       : install
}.

Definition ep_wf (e : ep) : bool :=
  ep_checks_lex e && ep_checks_parse e && ep_checks_listen e && ep_rejects_empty e && ep_checks_first e.

Definition clean (d : diag) : bool :=
  negb (d_blank d) && Nat.eqb (d_lex d) 0 && Nat.eqb (d_parse d) 0 && Nat.eqb (d_listen d) 0 &&
  match d_rules d with [] => false | _ => true end.

(* does entry point e accept a text with diagnostics d? *)
Definition accepts (e : ep) (d : diag) : bool :=
  (negb (ep_checks_lex e) || Nat.eqb (d_lex d) 0) &&
  (negb (ep_checks_parse e) || Nat.eqb (d_parse d) 0) &&
  (negb (ep_checks_listen e) || Nat.eqb (d_listen d) 0) &&
  (negb (ep_rejects_empty e) || match d_rules d with [] => false | _ => true end).

Section Compile.
  Variable shuffle : nat -> list rule -> list rule.

  (* the installed rule set after submitting a text with diagnostics d to entry point e *)
  Definition submit (e : ep) (k : kc) (d : diag) : kc * bool (* error? *) :=
    if accepts e d then
      (match ep_install e with
       | Replace => step shuffle k (Full 0 (d_rules d))
       | Merge => step shuffle k (Incr 0 (d_rules d))
       end, false)
    else (if ep_checks_first e then k else step shuffle k (Full 0 (d_rules d)), true).

  (* all-or-nothing: a reported error leaves the installed set entirely unchanged *)
  Lemma reject_unchanged : forall e k d, ep_wf e = true -> snd (submit e k d) = true -> fst (submit e k d) = k.
  Proof.
    intros e k d Hwf. unfold submit. destruct (accepts e d); simpl; [discriminate|].
    unfold ep_wf in Hwf. repeat (apply andb_prop in Hwf; destruct Hwf as [Hwf ?]).
    match goal with H : ep_checks_first e = true |- _ => rewrite H end. reflexivity.
  Qed.

  (* two well-formed entry points accept exactly the same texts *)
  Lemma wf_accept_is_clean : forall e d, ep_wf e = true -> d_blank d = false -> accepts e d = clean d.
  Proof.
    intros e d Hwf Hb. unfold ep_wf in Hwf. repeat (apply andb_prop in Hwf; destruct Hwf as [Hwf ?]).
    unfold accepts, clean. rewrite Hb.
    repeat match goal with H : _ = true |- _ => rewrite H; clear H end. simpl. reflexivity.
  Qed.

  Lemma agree : forall e1 e2 d, ep_wf e1 = true -> ep_wf e2 = true -> accepts e1 d = accepts e2 d.
  Proof.
    intros e1 e2 d H1 H2. unfold ep_wf in H1, H2.
    repeat (apply andb_prop in H1; destruct H1 as [H1 ?]). repeat (apply andb_prop in H2; destruct H2 as [H2 ?]).
    unfold accepts. repeat match goal with H : _ = true |- _ => rewrite H; clear H end. reflexivity.
  Qed.

  (* on success the set is entirely replaced or merged as requested (C08's step) *)
  Lemma accept_installs : forall e k d, accepts e d = true ->
    submit e k d = (match ep_install e with Replace => step shuffle k (Full 0 (d_rules d)) | Merge => step shuffle k (Incr 0 (d_rules d)) end, false).
  Proof. intros e k d H. unfold submit. rewrite H. reflexivity. Qed.

  (* a text that defines a name twice: the listener records an error (the front end's
     ExitRuleEntity clause, an assumption about the black box), so every well-formed entry point rejects it *)
  Lemma duplicate_rejected : forall e d, ep_wf e = true -> 0 < d_listen d -> accepts e d = false.
  Proof.
    intros e d Hwf Hd. unfold ep_wf in Hwf. repeat (apply andb_prop in Hwf; destruct Hwf as [Hwf ?]).
    unfold accepts. match goal with H : ep_checks_listen e = true |- _ => rewrite H end.
    destruct (d_listen d); [inversion Hd|]. simpl. rewrite !andb_false_r. reflexivity.
  Qed.
End Compile.

(* an entry point that does not look at the lexer's errors accepts texts the others reject *)
Example missing_lexer_check_disagrees :
  let bad := mkEp "pool-incremental" false true true true true Merge in
  let good := mkEp "builder-full" true true true true true Replace in
  let d := mkDiag false 1 0 0 [mkRule "x" 0%Z "" 1%Z] in
  accepts bad d = true /\ accepts good d = false.
Proof. split; reflexivity. Qed.

Definition bad_eps (l : list ep) : list string := map ep_name (filter (fun e => negb (ep_wf e)) l).
