(* Pool/Model.v — engine/gengine_pool.go as a transition system at the granularity of its
   locks.  Three layers, definitions only:

   (1) capacity / isolation (C17, C06): free lists, in-flight requests, pending asynchronous
       puts, request-injected keys per instance;
   (2) management (C16): master rule set, per-instance rule sets, cleared flag, execution
       model, as lifted from Rules/KcModel.v;
   (3) hot updates (C07): a heap of immutable rule containers with a master pointer and one
       pointer per instance; an update publishes under one lock; an execution takes ONE
       snapshot of its instance's pointer under the same lock and uses it throughout. *)
From Coq Require Import String List ZArith Bool Permutation.
From GV Require Import Rules.KcModel.
Import ListNotations.

(* ================= (1) capacity and isolation ================= *)
Record cap := mkCap {
  c_min  : nat;
  c_max  : nat;
  free   : list nat;                         (* freeGengines: tags of the initial wrappers not in use *)
  addl   : list nat;                         (* additionGengines *)
  infl   : list (nat * nat);                 (* (request, tag): wrappers handed to a request *)
  pend   : list nat;                         (* wrappers whose deferred put goroutine has not appended yet *)
  keys   : list (nat * (string * nat))       (* (tag, (key, owner request)): request data in an instance's data context *)
}.

Inductive cact :=
| AGet (q : nat)                             (* getGengine returns: head of the free list, else of the addition list *)
| AInject (q : nat) (ks : list string)       (* prepare*: Dc.Add for every key of the request *)
| ADone (q : nat)                            (* the deferred function: delete exactly the injected keys, start the put goroutine *)
| APut (t : nat).                            (* the put goroutine appends the wrapper under its list's lock *)

Definition cap_init (mn mx : nat) : cap := mkCap mn mx (seq 0 mn) (seq mn (mx - mn)) [] [] [].

Fixpoint tag_of (q : nat) (l : list (nat * nat)) : option nat :=
  match l with [] => None | (q', t) :: l' => if Nat.eqb q q' then Some t else tag_of q l' end.
Fixpoint remove_req (q : nat) (l : list (nat * nat)) : list (nat * nat) :=
  match l with [] => [] | (q', t) :: l' => if Nat.eqb q q' then l' else (q', t) :: remove_req q l' end.
Fixpoint remove_first (t : nat) (l : list nat) : list nat :=
  match l with [] => [] | x :: l' => if Nat.eqb x t then l' else x :: remove_first t l' end.

(* None = the action is not enabled in this state (for AGet: the caller keeps spinning) *)
Definition cstep (s : cap) (a : cact) : option cap :=
  match a with
  | AGet q =>
    match tag_of q (infl s) with
    | Some _ => None
    | None =>
      match free s, addl s with
      | t :: f', _ => Some (mkCap (c_min s) (c_max s) f' (addl s) ((q, t) :: infl s) (pend s) (keys s))
      | [], t :: a' => Some (mkCap (c_min s) (c_max s) [] a' ((q, t) :: infl s) (pend s) (keys s))
      | [], [] => None
      end
    end
  | AInject q ks =>
    match tag_of q (infl s) with
    | Some t => Some (mkCap (c_min s) (c_max s) (free s) (addl s) (infl s) (pend s)
                            (map (fun k => (t, (k, q))) ks ++ keys s))
    | None => None
    end
  | ADone q =>
    match tag_of q (infl s) with
    | Some t => Some (mkCap (c_min s) (c_max s) (free s) (addl s) (remove_req q (infl s)) (t :: pend s)
                            (filter (fun e => negb (Nat.eqb (snd (snd e)) q)) (keys s)))
    | None => None
    end
  | APut t =>
    if existsb (Nat.eqb t) (pend s) then
      if Nat.ltb t (c_min s)
      then Some (mkCap (c_min s) (c_max s) (free s ++ [t]) (addl s) (infl s) (remove_first t (pend s)) (keys s))
      else Some (mkCap (c_min s) (c_max s) (free s) (addl s ++ [t]) (infl s) (remove_first t (pend s)) (keys s))
    else None
  end.

Fixpoint csteps (s : cap) (l : list cact) : option cap :=
  match l with
  | [] => Some s
  | a :: l' => match cstep s a with Some s' => csteps s' l' | None => None end
  end.

Definition all_tags (s : cap) : list nat := free s ++ addl s ++ map snd (infl s) ++ pend s.

Definition CapInv (s : cap) : Prop :=
  Permutation (all_tags s) (seq 0 (c_max s)) /\
  (forall t k q, In (t, (k, q)) (keys s) -> In (q, t) (infl s)) /\
  NoDup (map fst (infl s)).

(* what a rule execution of request q can resolve besides the pool's api table *)
Definition visible_keys (s : cap) (q : nat) : list (string * nat) :=
  match tag_of q (infl s) with
  | Some t => map snd (filter (fun e => Nat.eqb (fst e) t) (keys s))
  | None => []
  end.

(* ================= (2) management operations and queries ================= *)
Inductive mop :=
| MUpdate (seed : nat) (rs : list rule)     (* UpdatePooledRules with a text that parses to rs *)
| MIncr (seed : nat) (rs : list rule)       (* UpdatePooledRulesIncremental *)
| MRemove (seed : nat) (ns : list string)   (* RemoveRules *)
| MClear                                    (* ClearPoolRules *)
| MSetModel (m : nat)                       (* SetExecModel *)
| MBadText (incremental : bool).            (* a text that does not compile *)

Record mgmt := mkMgmt {
  m_master : kc;
  m_insts  : list kc;          (* one per engine instance, initial and additional *)
  m_clear  : bool;
  m_model  : nat
}.

Section Mgmt.
  Variable shuffle : nat -> list rule -> list rule.

  Definition valid_model (m : nat) : bool := (Nat.leb 1 m && Nat.leb m 4)%bool.

  Definition mstep (s : mgmt) (o : mop) : mgmt :=
    match o with
    | MUpdate seed rs =>
      if compiles rs then
        let k := step shuffle kc_empty (Full seed rs) in
        mkMgmt k (map (fun _ => k) (m_insts s)) false (m_model s)
      else s
    | MIncr seed rs =>
      if compiles rs then
        let k := step shuffle (m_master s) (Incr seed rs) in
        mkMgmt k (map (fun _ => k) (m_insts s)) false (m_model s)
      else s
    | MRemove seed ns =>
      match ns with
      | [] => s
      | _ => mkMgmt (step shuffle (m_master s) (Remove seed ns))
                    (map (fun ki => step shuffle ki (Remove (S seed) ns)) (m_insts s))
                    (m_clear s) (m_model s)
      end
    | MClear => mkMgmt kc_empty (map (fun _ => kc_empty) (m_insts s)) true (m_model s)
    | MSetModel m => if valid_model m then mkMgmt (m_master s) (m_insts s) (m_clear s) m else s
    | MBadText _ => s
    end.

  Definition mstep_err (s : mgmt) (o : mop) : bool :=
    match o with
    | MUpdate _ rs | MIncr _ rs => negb (compiles rs)
    | MRemove _ ns => match ns with [] => true | _ => false end
    | MClear => false
    | MSetModel m => negb (valid_model m)
    | MBadText _ => true
    end.

  Definition mrun (s : mgmt) (ops : list mop) : mgmt := fold_left mstep ops s.
End Mgmt.

Definition mgmt_init (mx : nat) (model : nat) (rs : list rule) (shuffle : nat -> list rule -> list rule) : mgmt :=
  let k := step shuffle kc_empty (Full 0 rs) in mkMgmt k (repeat k mx) false model.

(* the rule set and model a sequence denotes *)
Definition to_op (o : mop) : option op :=
  match o with
  | MUpdate s rs => Some (Full s rs)
  | MIncr s rs => Some (Incr s rs)
  | MRemove s ns => Some (Remove s ns)
  | MBadText b => Some (Bad b)
  | _ => None
  end.
Definition mdenote_step (st : ruleset * bool * nat) (o : mop) : ruleset * bool * nat :=
  let '(rs, cl, m) := st in
  match o with
  | MClear => (rs_empty, true, m)
  | MSetModel m' => if valid_model m' then (rs, cl, m') else (rs, cl, m)
  | MUpdate _ r | MIncr _ r => (apply_op rs (match to_op o with Some x => x | None => Bad false end), if compiles r then false else cl, m)
  | _ => (apply_op rs (match to_op o with Some x => x | None => Bad false end), cl, m)
  end.

(* queries *)
Definition q_exist (s : mgmt) (n : string) : bool := if m_clear s then false else is_exist (m_master s) n.
Definition q_number (s : mgmt) : nat := if m_clear s then 0 else length (ents (m_master s)).
Definition q_salience (s : mgmt) (n : string) : option Z :=
  if m_clear s then None else match alookup n (ents (m_master s)) with Some r => Some (rsal r) | None => None end.
Definition q_desc (s : mgmt) (n : string) : option string :=
  if m_clear s then None else match alookup n (ents (m_master s)) with Some r => Some (rdesc r) | None => None end.

(* ================= (3) hot updates: versions seen by executions ================= *)
(* events of a history, in the order of their linearisation points: an update (full /
   incremental / removal / clear) installs version v atomically (one lock held from the first
   store to the last); an execution takes its snapshot atomically under the same lock *)
Inductive hev :=
| HUpdBegin (v : nat) | HUpdEnd (v : nat) | HInstall (v : nat)
| HExecBegin (q : nat) | HSnap (q : nat) | HExecEnd (q : nat).

(* the version an execution observes: the last version installed before its snapshot *)
Fixpoint version_at (h : list hev) (cur : nat) (q : nat) : option nat :=
  match h with
  | [] => None
  | HInstall v :: h' => version_at h' v q
  | HSnap q' :: h' => if Nat.eqb q q' then Some cur else version_at h' cur q
  | _ :: h' => version_at h' cur q
  end.

Fixpoint index_of (e : hev -> bool) (h : list hev) (i : nat) : option nat :=
  match h with [] => None | x :: h' => if e x then Some i else index_of e h' (S i) end.
Definition is_ev (a b : hev) : bool :=
  match a, b with
  | HUpdBegin x, HUpdBegin y | HUpdEnd x, HUpdEnd y | HInstall x, HInstall y
  | HExecBegin x, HExecBegin y | HSnap x, HSnap y | HExecEnd x, HExecEnd y => Nat.eqb x y
  | _, _ => false
  end.
Definition pos_of (a : hev) (h : list hev) : option nat := index_of (is_ev a) h 0.

(* a well-formed history: versions are installed in increasing order between their update's
   begin and end; an execution's snapshot lies between its begin and end *)
Definition before (a b : hev) (h : list hev) : Prop :=
  match pos_of a h, pos_of b h with Some i, Some j => i < j | _, _ => False end.
