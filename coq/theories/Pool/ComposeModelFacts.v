(* Pool/ComposeModelFacts.v — facts about [expected_result_k] / [expected_em_result] (Pool/Compose.v): what an execution
   through a *SpecifiedEM wrapper hands back when some rules FAIL, per execution model. *)
From Coq Require Import String List ZArith Bool Lia Permutation.
From GV Require Import Rules.KcModel Rules.KcCheck Rules.KcProofs Pool.Model Engine.IR Engine.Hand Engine.Spec Pool.Compose Pool.ComposeFacts.
Import ListNotations.

(* with no failing rule the generalised definition is the old one *)
Lemma expected_result_k_no_failures : forall sh s, expected_result_k (fun _ => false) sh s = expected_result sh s.
Proof.
  intros sh s. unfold expected_result_k, expected_result.
  destruct (m_clear s); [reflexivity|]. cbv zeta.
  rewrite (map_ext (erule_of_k (fun _ => false)) erule_of); [reflexivity|].
  intros r. reflexivity.
Qed.

(* ---------- the result map of a list of rules some of which fail ---------- *)
Definition passes (fails : string -> bool) (r : rule) : bool := negb (fails (rname r)).

Lemma fold_add_entry_k : forall fails l acc, NoDup (map fst acc ++ map rname l) ->
  fold_left add_entry (map (erule_of_k fails) l) acc = acc ++ map entry_of (filter (passes fails) l).
Proof.
  intros fails. induction l as [|r l IH]; intros acc ND; cbn [map fold_left filter].
  - now rewrite app_nil_r.
  - unfold add_entry at 2. unfold passes at 1. cbn [erule_of_k eret en eval].
    cbn [map] in ND.
    destruct (fails (rname r)) eqn:Ef; cbn [negb].
    + apply IH. eapply NoDup_remove_1. exact ND.
    + assert (Hn : ~ In (rname r) (map fst acc)).
      { intros Hi. apply NoDup_remove_2 in ND. apply ND. apply in_or_app. now left. }
      rewrite (set_entry_absent _ _ _ Hn).
      rewrite IH.
      * cbn [map]. now rewrite <- app_assoc.
      * rewrite map_app, <- app_assoc. exact ND.
Qed.

Lemma result_entries_k : forall fails l, NoDup (map rname l) ->
  result_entries (map (erule_of_k fails) l) = map entry_of (filter (passes fails) l).
Proof. intros fails l ND. unfold result_entries. now rewrite fold_add_entry_k. Qed.

Lemma non_failing_entries : forall fails k x, Inv k ->
  (In x (flat_map (fun nv : string * option Z => match snd nv with Some v => [(fst nv, v)] | None => [] end)
                  (result_entries (map (erule_of_k fails) (sorted k)))) <->
   exists r, In r (sorted k) /\ fails (rname r) = false /\ x = (rname r, rbody r)).
Proof.
  intros fails k x HI. rewrite (result_entries_k fails _ (inv_names_unique k HI)).
  rewrite in_flat_map. split.
  - intros (nv & Hn & Hx). apply in_map_iff in Hn. destruct Hn as (r & <- & Hr).
    apply filter_In in Hr. destruct Hr as [Hr Hp]. unfold passes in Hp. apply negb_true_iff in Hp.
    cbn [entry_of fst snd] in Hx. destruct Hx as [<-|[]]. exists r. auto.
  - intros (r & Hr & Hf & ->). exists (entry_of r). split.
    + apply in_map. apply filter_In. split; [exact Hr|]. unfold passes. now rewrite Hf.
    + cbn [entry_of fst snd]. now left.
Qed.

(* sort model (model number 1): every rule of the denoted set runs; exactly the rules that do not fail have an entry *)
Theorem em_sort_model_returns_the_non_failing_rules : forall fails s x,
  m_clear s = false -> m_model s = 1 -> Inv (m_master s) -> sorted (m_master s) <> [] ->
  (In x (expected_em_result fails s) <->
   exists r, In r (sorted (m_master s)) /\ fails (rname r) = false /\ x = (rname r, rbody r)).
Proof.
  intros fails s x Hc Hm HI Hne. unfold expected_em_result, expected_result_k. rewrite Hc, Hm. cbv zeta.
  cbn [entry_of_model sh_entry sh_n sh_m sh_names sh_layers].
  rewrite exec_keys; [|cbn [c_rules]; now apply map_not_nil|reflexivity|reflexivity].
  cbn [c_rules]. now apply non_failing_entries.
Qed.

(* concurrent model (2): the same set *)
Theorem em_concurrent_model_returns_the_non_failing_rules : forall fails s x,
  m_clear s = false -> m_model s = 2 -> Inv (m_master s) -> sorted (m_master s) <> [] ->
  (In x (expected_em_result fails s) <->
   exists r, In r (sorted (m_master s)) /\ fails (rname r) = false /\ x = (rname r, rbody r)).
Proof.
  intros fails s x Hc Hm HI Hne. unfold expected_em_result, expected_result_k. rewrite Hc, Hm. cbv zeta.
  cbn [entry_of_model sh_entry sh_n sh_m sh_names sh_layers].
  rewrite conc_keys; [|cbn [c_rules]; now apply map_not_nil].
  cbn [c_rules]. now apply non_failing_entries.
Qed.

(* mix model (3): when the highest-salience rule fails nothing else runs — the result is empty *)
Theorem em_mix_model_top_failure_returns_nothing : forall fails s r rest,
  m_clear s = false -> m_model s = 3 -> sorted (m_master s) = r :: rest -> fails (rname r) = true ->
  expected_em_result fails s = [].
Proof.
  intros fails s r rest Hc Hm Hs Hf. unfold expected_em_result, expected_result_k. rewrite Hc, Hm, Hs. cbv zeta.
  cbn [entry_of_model sh_entry sh_n sh_m sh_names sh_layers map].
  unfold spec_outcome, spec. cbn [c_rules]. unfold mix_stage.
  unfold erule_of_k at 1. cbn [efail]. rewrite Hf.
  cbn [o_map]. unfold executed. cbn [flat_map seg_rules app].
  unfold result_entries. cbn [fold_left]. unfold add_entry, erule_of_k. cbn [eret]. rewrite Hf. reflexivity.
Qed.

(* ... so the sort and the mix model are told apart by the result whenever the top rule fails and another rule does not *)
Corollary em_sort_and_mix_differ : forall fails s1 s3 r rest r',
  m_master s1 = m_master s3 -> m_clear s1 = false -> m_clear s3 = false -> m_model s1 = 1 -> m_model s3 = 3 ->
  Inv (m_master s1) -> sorted (m_master s1) = r :: rest -> fails (rname r) = true -> In r' rest -> fails (rname r') = false ->
  expected_em_result fails s1 <> expected_em_result fails s3.
Proof.
  intros fails s1 s3 r rest r' Hk Hc1 Hc3 Hm1 Hm3 HI Hs Hf Hr' Hf' E.
  rewrite (em_mix_model_top_failure_returns_nothing fails s3 r rest Hc3 Hm3) in E;
    [|now rewrite <- Hk|exact Hf].
  assert (Hne : sorted (m_master s1) <> []) by (rewrite Hs; discriminate).
  assert (Hin : In (rname r', rbody r') (expected_em_result fails s1)).
  { apply (em_sort_model_returns_the_non_failing_rules fails s1 _ Hc1 Hm1 HI Hne).
    exists r'. split; [rewrite Hs; now right|]. split; [exact Hf'|reflexivity]. }
  rewrite E in Hin. exact Hin.
Qed.

(* a cleared pool returns nothing under every model *)
Theorem em_cleared_returns_nothing : forall fails s, m_clear s = true -> expected_em_result fails s = [].
Proof. intros fails s H. unfold expected_em_result, expected_result_k. now rewrite H. Qed.

Print Assumptions em_sort_model_returns_the_non_failing_rules.
Print Assumptions em_mix_model_top_failure_returns_nothing.
Print Assumptions em_sort_and_mix_differ.
