(* Pool/Check.v — correspondence checkers for the pool family (C06 C07 C16 C17): executable
   forms of the invariants / denotations of Pool/Model.v, evaluated on observations of the
   real pool (snapshots obtained by reflection, request results, globally sequenced events). *)
From Coq Require Import String List ZArith Bool.
From GV Require Import Rules.KcModel Rules.KcCheck Pool.Model Engine.IR Engine.Hand Engine.Spec Pool.Compose.
Import ListNotations.

Definition flag (b : bool) (code : nat) : list nat := if b then [] else [code].

Fixpoint insert_nat (x : nat) (l : list nat) : list nat :=
  match l with [] => [x] | y :: l' => if Nat.leb x y then x :: y :: l' else y :: insert_nat x l' end.
Definition sort_nat (l : list nat) : list nat := fold_right insert_nat [] l.
Fixpoint list_nat_eqb (a b : list nat) : bool :=
  match a, b with [] , [] => true | x :: a', y :: b' => Nat.eqb x y && list_nat_eqb a' b' | _, _ => false end.
Fixpoint nodup_nat (l : list nat) : bool :=
  match l with [] => true | x :: l' => negb (existsb (Nat.eqb x) l') && nodup_nat l' end.

(* ---------- C17 / C06: a snapshot of the free lists and of every instance's data context ---------- *)
Record cap_snap := mkCS {
  cs_id     : nat;
  cs_min    : nat;
  cs_max    : nat;
  cs_free   : list nat;
  cs_addl   : list nat;
  cs_owner  : list (nat * nat);      (* (tag, request id) for every request-owned key found in instance tag *)
  cs_active : list nat;              (* requests the script holds inside a rule at this point *)
  cs_events : list (bool * nat);     (* (true, q): request q entered its first rule; (false, q): the last rule q ran ended *)
  cs_done   : list nat               (* requests whose call has returned before this snapshot *)
}.

Definition cap_of_snap (c : cap_snap) : cap :=
  mkCap (cs_min c) (cs_max c) (cs_free c) (cs_addl c)
        (map (fun p => (snd p, fst p)) (cs_owner c)) []
        (map (fun p => (fst p, ("K"%string, snd p))) (cs_owner c)).

Fixpoint max_active (ev : list (bool * nat)) (cur best : nat) : nat :=
  match ev with
  | [] => best
  | (true, _) :: ev' => max_active ev' (S cur) (Nat.max best (S cur))
  | (false, _) :: ev' => max_active ev' (Nat.pred cur) best
  end.

Definition check_cap (c : cap_snap) : list (nat * nat) :=
  let s := cap_of_snap c in
  let holders := map snd (infl s) in
  map (fun k => (cs_id c, k))
    (flag (list_nat_eqb (sort_nat (all_tags s)) (seq 0 (cs_max c))) 1 ++        (* conservation: no instance lost or duplicated *)
     flag (nodup_nat (map fst (infl s)) && nodup_nat holders) 2 ++               (* one instance per request, one request per instance *)
     flag (list_nat_eqb (sort_nat (map fst (infl s))) (sort_nat (cs_active c))) 3 ++  (* exactly the held requests own an instance's data *)
     flag (forallb (fun q => negb (existsb (Nat.eqb q) (map snd (cs_owner c)))) (cs_done c)) 4 ++  (* nothing of a returned request is left *)
     flag (forallb (fun t => Nat.ltb t (cs_min c)) (cs_free c) && forallb (fun t => Nat.leb (cs_min c) t) (cs_addl c)) 5 ++
     flag (Nat.leb (max_active (cs_events c) 0 0) (cs_max c)) 6).                (* at most max executions at once *)

(* ---------- C06: what each request got back ---------- *)
Record req_obs := mkRO {
  ro_id     : nat;
  ro_scn    : nat;
  ro_vals   : list nat;      (* request ids echoed in the values of the returned map *)
  ro_out    : nat;           (* the request's own object after the call (0 = no rule ran) *)
  ro_same   : bool;          (* the returned map read again at the end of the scenario is unchanged *)
  ro_ran    : bool           (* at least one rule ran *)
}.
Definition check_req (r : req_obs) : list (nat * nat) :=
  map (fun k => (ro_scn r, k))
    (flag (forallb (Nat.eqb (ro_id r)) (ro_vals r)) 11 ++                         (* only values computed from this request *)
     flag (negb (ro_ran r) || Nat.eqb (ro_out r) (ro_id r)) 12 ++                 (* the rules wrote this request's own object *)
     flag (ro_same r) 13).                                                       (* never modified after hand-back *)

(* ---------- C16: management histories ---------- *)
Record mg_snap := mkMS {
  ms_err     : bool;
  ms_panic   : bool;
  ms_master  : list rule;          (* master SortRules ([] when the master builder is nil) *)
  ms_insts   : list (list rule);   (* every instance's SortRules *)
  ms_clear   : bool;
  ms_model   : nat;
  ms_exist   : list bool;
  ms_number  : nat;
  ms_sal     : list (option Z);
  ms_desc    : list (option string);
  ms_execs   : list (list (string * Z));  (* per instance: (rule, version) entries returned by an execution forced onto it (sort model wrapper) *)
  ms_em_execs : list (list (string * Z))  (* per instance: the same through the *SpecifiedEM wrapper, i.e. under the pool's CURRENT model *)
}.

(* the probe rule named "pd" always fails (harness rule kind "fail"): the result then tells the execution models apart *)
Definition probe_fails (n : string) : bool := String.eqb n "pd".
Record mg_case := mkMC {
  mc_id    : nat;
  mc_max   : nat;
  mc_model : nat;
  mc_rules : list rule;
  mc_probe : list string;
  mc_steps : list (mop * mg_snap)
}.

Definition same_rules (obs : list rule) (k : kc) : bool :=
  (Nat.eqb (length obs) (length (ents k)) &&
   forallb (fun r => match alookup (rname r) (ents k) with Some r' => rule_eqb r r' | None => false end) obs &&
   sorted_descb obs && nodupb (map rname obs))%bool.

Definition opt_eqb {A} (eqb : A -> A -> bool) (a b : option A) : bool :=
  match a, b with None, None => true | Some x, Some y => eqb x y | _, _ => false end.

Definition check_mg_step (probe : list string) (s s' : mgmt) (o : mop) (ob : mg_snap) : list nat :=
  flag (negb (ms_panic ob)) 21 ++
  (if ms_panic ob then [] else
   flag (Bool.eqb (ms_err ob) (mstep_err s o)) 22 ++
   flag (same_rules (ms_master ob) (m_master s')) 23 ++
   flag (forallb (fun l => same_rules l (m_master s')) (ms_insts ob)) 24 ++
   flag (Bool.eqb (ms_clear ob) (m_clear s') && Nat.eqb (ms_model ob) (m_model s')) 25 ++
   flag (KcCheck.list_eqb Bool.eqb (ms_exist ob) (map (q_exist s') probe) &&
         Nat.eqb (ms_number ob) (q_number s') &&
         KcCheck.list_eqb (opt_eqb Z.eqb) (ms_sal ob) (map (q_salience s') probe) &&
         KcCheck.list_eqb (opt_eqb String.eqb) (ms_desc ob) (map (q_desc s') probe)) 26 ++
   (* an execution forced onto every instance returns exactly what the sort model returns on the denoted set (the failing
      probe rule has no entry) — or nothing when cleared *)
   flag (forallb (fun ex => same_entries ex (expected_result_k probe_fails (mkShape EExecute 0 0 [] []) s')) (ms_execs ob)) 27 ++
   (* ... and through the *SpecifiedEM wrappers what the DENOTED MODEL returns on the denoted set *)
   flag (forallb (fun ex => same_entries ex (expected_em_result probe_fails s')) (ms_em_execs ob)) 29).

Fixpoint check_mg_steps (i : nat) (probe : list string) (s : mgmt) (steps : list (mop * mg_snap)) : list (nat * nat) :=
  match steps with
  | [] => []
  | (o, ob) :: rest =>
    let s' := mstep idshuffle s o in
    map (fun c => (i, c)) (check_mg_step probe s s' o ob) ++
    (if ms_panic ob then [] else check_mg_steps (S i) probe s' rest)
  end.

Definition check_mg (c : mg_case) : list (nat * (nat * nat)) :=
  map (fun p => (mc_id c, p))
      (check_mg_steps 0 (mc_probe c) (mgmt_init (mc_max c) (mc_model c) (mc_rules c) idshuffle) (mc_steps c)).

(* ---------- C07: versions seen by executions ---------- *)
Record upd_obs := mkUO { uo_ver : nat; uo_begin : nat; uo_end : nat; uo_ok : bool }.
Record exec_obs := mkEO { eo_scn : nat; eo_req : nat; eo_vers : list nat; eo_begin : nat; eo_end : nat }.

Definition check_exec (v0 : nat) (ups : list upd_obs) (e : exec_obs) : list (nat * nat) :=
  map (fun k => (eo_scn e, k))
    (match eo_vers e with
     | [] => []
     | w :: rest =>
       flag (forallb (Nat.eqb w) rest) 31 ++                                             (* exactly one version *)
       flag (Nat.eqb w v0 || existsb (fun u => uo_ok u && Nat.eqb (uo_ver u) w) ups) 32 ++ (* an installed one *)
       flag (forallb (fun u => negb (uo_ok u && Nat.ltb (uo_end u) (eo_begin e)) || Nat.leb (uo_ver u) w) ups) 33 ++  (* visible afterwards *)
       flag (forallb (fun u => negb (uo_ok u && Nat.ltb (eo_end e) (uo_begin u)) || Nat.ltb w (uo_ver u)) ups) 34     (* none from the future *)
     end).
