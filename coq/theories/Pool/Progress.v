(* Pool/Progress.v — waiting in the pool: the locks and the instance count as ONE transition system,
   with progress (no reachable or unreachable state in which an unfinished thread exists and nobody can
   move) and termination (every step lowers a weight), hence: every schedule of any number of requests
   and updates ends with every one of them finished.

   What is modelled (engine/gengine_pool.go):
     a request   = isCleared (a read section of stateLock) ; getGengine (waits for an instance, holding
                   NOTHING) ; snapshotRuleBuilder (a read section) ; the rules run (holding nothing) — and
                   may call an update of the pool from inside, any number b of times ; hand-back
     an update   = updateLock.Lock ; stateLock.Lock ; ... ; both unlocked
     a query     = updateLock.Lock ; ... ; unlocked
   (the three *SpecifiedEM wrappers read the execution model in one more read section before the rules run)
   sync.RWMutex as Go implements it: RLock waits while a writer holds the lock AND while one is waiting
   for it (writer preference); Lock waits for the holder and for the readers to drain.
   The lock state is DERIVED from the program counters, so that no invariant relating the two is needed.

   The discipline the shape of these programs relies on — getGengine and the engine's Execute* are called
   with no pool lock held, read sections contain no acquisition, updateLock is taken before stateLock and
   never the other way round — is an obligation on the lock table regenerated from the source on every run
   (obligations/GenWaitOk.v, Race/Checker.v acq_ok / wait_ok).

   [wl] is the variant in which the waiter holds the read lock while it waits for an instance
   ("instance and current rules taken in one step"): progress fails for it — deadlock_if_waiter_holds_rlock. *)
From Coq Require Import List Arith Bool Lia.
Import ListNotations.

Inductive pc :=
| Q0 (b : nat)   (* request: about to enter isCleared; b = updates its rules will still issue *)
| Q1 (b : nat)   (* inside isCleared: holds a read lock *)
| Q2 (b : nat)   (* wants an instance (wl: wants the read lock first) *)
| Q2h (b : nat)  (* wl only: holds a read lock, wants an instance *)
| Q3 (b : nat)   (* holds an instance, wants the read lock for the snapshot *)
| Q4 (b : nat)   (* holds an instance and a read lock *)
| Q3m (b : nat)  (* the *SpecifiedEM wrappers read the execution model next: holds an instance, wants the read lock again *)
| Q4m (b : nat)  (* holds an instance and a read lock *)
| Q5 (b : nat)   (* rules running: holds an instance, no lock *)
| QU0 (b : nat)  (* rules running, inside an update call: wants updateLock *)
| QU1 (b : nat)  (* holds updateLock, wants stateLock for writing *)
| QU2 (b : nat)  (* holds both *)
| Q6             (* finished, instance handed back *)
| P0 | P1 | P2 | P3    (* an update from outside: wants updateLock / wants stateLock / holds both / finished *)
| G0 | G1 | G2.        (* a query (IsExist, GetRulesNumber, ...): wants updateLock / holds it / finished *)

Definition is_reader (p : pc) : bool := match p with Q1 _ | Q2h _ | Q4 _ | Q4m _ => true | _ => false end.
Definition is_writer (p : pc) : bool := match p with QU2 _ | P2 => true | _ => false end.
Definition wants_write (p : pc) : bool := match p with QU1 _ | P1 => true | _ => false end.
Definition has_ulock (p : pc) : bool := match p with QU1 _ | QU2 _ | P1 | P2 | G1 => true | _ => false end.
Definition has_inst (p : pc) : bool := match p with Q3 _ | Q4 _ | Q3m _ | Q4m _ | Q5 _ | QU0 _ | QU1 _ | QU2 _ => true | _ => false end.
Definition done (p : pc) : bool := match p with Q6 | P3 | G2 => true | _ => false end.

Definition readers (ts : list pc) : nat := length (filter is_reader ts).
Definition inuse (ts : list pc) : nat := length (filter has_inst ts).
Definition rlock_ok (ts : list pc) : bool := negb (existsb is_writer ts) && negb (existsb wants_write ts).
Definition wlock_ok (ts : list pc) : bool := negb (existsb is_writer ts) && (readers ts =? 0).
Definition ulock_ok (ts : list pc) : bool := negb (existsb has_ulock ts).

(* the moves of one thread in the context of all ([ts] includes the thread itself: none of the tests
   below counts the mover in a way that matters — a thread that wants a lock does not hold it) *)
Definition next (M : nat) (wl : bool) (ts : list pc) (p : pc) : list pc :=
  match p with
  | Q0 b => if rlock_ok ts then [Q1 b] else []
  | Q1 b => [Q2 b]
  | Q2 b => if wl then (if rlock_ok ts then [Q2h b] else [])
            else (if inuse ts <? M then [Q3 b] else [])
  | Q2h b => if inuse ts <? M then [Q4 b] else []
  | Q3 b => if rlock_ok ts then [Q4 b] else []
  | Q4 b => [Q5 b; Q3m b]
  | Q3m b => if rlock_ok ts then [Q4m b] else []
  | Q4m b => [Q5 b]
  | Q5 b => Q6 :: match b with 0 => [] | S b' => [QU0 b'] end
  | QU0 b => if ulock_ok ts then [QU1 b] else []
  | QU1 b => if wlock_ok ts then [QU2 b] else []
  | QU2 b => [Q5 b]
  | Q6 => []
  | P0 => if ulock_ok ts then [P1] else []
  | P1 => if wlock_ok ts then [P2] else []
  | P2 => [P3]
  | P3 => []
  | G0 => if ulock_ok ts then [G1] else []
  | G1 => [G2]
  | G2 => []
  end.

(* one step of the system: thread i makes one of its moves *)
Inductive step (M : nat) (wl : bool) : list pc -> list pc -> Prop :=
| step_at : forall pre p post p', In p' (next M wl (pre ++ p :: post) p) -> step M wl (pre ++ p :: post) (pre ++ p' :: post).

Definition all_done (ts : list pc) : bool := forallb done ts.
Definition can_move (M : nat) (wl : bool) (ts : list pc) : bool :=
  existsb (fun p => match next M wl ts p with [] => false | _ => true end) ts.

(* ---------------------------------------------------------------- progress *)
Lemma existsb_false_all {A} (f : A -> bool) l : existsb f l = false -> forall x, In x l -> f x = false.
Proof.
  intros H x Hx. destruct (f x) eqn:E; [|reflexivity].
  assert (existsb f l = true) by (apply existsb_exists; exists x; auto). congruence.
Qed.

Lemma filter_nil_len {A} (f : A -> bool) l : (forall x, In x l -> f x = false) -> length (filter f l) = 0.
Proof.
  induction l as [|a l IH]; intros H; [reflexivity|]. cbn [filter].
  rewrite (H a (or_introl eq_refl)). apply IH. intros x Hx. apply H. right. exact Hx.
Qed.

Lemma forallb_false_ex {A} (f : A -> bool) l : forallb f l = false -> exists x, In x l /\ f x = false.
Proof.
  induction l as [|a l IH]; cbn; intros H; [discriminate|].
  destruct (f a) eqn:E.
  - destruct (IH H) as [x [Hx Hf]]. exists x. auto.
  - exists a. auto.
Qed.

Definition free_mover (p : pc) : bool := match p with Q1 _ | Q4 _ | Q4m _ | Q5 _ | QU2 _ | P2 | G1 => true | _ => false end.
Definition is_q2h (p : pc) : bool := match p with Q2h _ => true | _ => false end.
Definition wants_ulock (p : pc) : bool := match p with QU0 _ | P0 | G0 => true | _ => false end.
Definition wants_rlock (p : pc) : bool := match p with Q0 _ | Q3 _ | Q3m _ => true | _ => false end.

Lemma mover_moves M wl ts p : In p ts -> next M wl ts p <> [] -> can_move M wl ts = true.
Proof.
  intros Hin Hn. unfold can_move. apply existsb_exists. exists p. split; [exact Hin|].
  destruct (next M wl ts p); [contradiction|reflexivity].
Qed.

(* PROGRESS, for every state of the system as the code has it (nobody waits for an instance with the read
   lock in hand): as long as one request or update is unfinished, somebody can move — whatever the number
   of threads, of instances (>= 1), and wherever each of them is. *)
Theorem progress M ts : 1 <= M -> existsb is_q2h ts = false -> all_done ts = false -> can_move M false ts = true.
Proof.
  intros HM Hq Hnd.
  pose proof (existsb_false_all _ _ Hq) as Hq'.
  destruct (existsb free_mover ts) eqn:Efm.
  { apply existsb_exists in Efm. destruct Efm as [p [Hin Hp]].
    apply (mover_moves M false ts p Hin). destruct p; cbn in Hp; try discriminate; cbn; discriminate. }
  pose proof (existsb_false_all _ _ Efm) as Hfm.
  assert (Hw : existsb is_writer ts = false).
  { apply not_true_is_false. intro E. apply existsb_exists in E. destruct E as [p [Hin Hp]].
    specialize (Hfm p Hin). destruct p; cbn in *; congruence. }
  assert (Hr0 : readers ts = 0).
  { apply filter_nil_len. intros p Hin. specialize (Hfm p Hin). specialize (Hq' p Hin). destruct p; cbn in *; congruence. }
  destruct (existsb wants_write ts) eqn:Eww.
  { apply existsb_exists in Eww. destruct Eww as [p [Hin Hp]].
    apply (mover_moves M false ts p Hin).
    destruct p; cbn in Hp; try discriminate; cbn; unfold wlock_ok; rewrite Hw, Hr0; cbn; discriminate. }
  pose proof (existsb_false_all _ _ Eww) as Hww.
  assert (Hu : ulock_ok ts = true).
  { unfold ulock_ok. apply negb_true_iff. apply not_true_is_false. intro E. apply existsb_exists in E.
    destruct E as [p [Hin Hp]]. specialize (Hfm p Hin). specialize (Hww p Hin). destruct p; cbn in *; congruence. }
  destruct (existsb wants_ulock ts) eqn:Ewu.
  { apply existsb_exists in Ewu. destruct Ewu as [p [Hin Hp]].
    apply (mover_moves M false ts p Hin).
    destruct p; cbn in Hp; try discriminate; cbn; rewrite Hu; discriminate. }
  pose proof (existsb_false_all _ _ Ewu) as Hwu.
  assert (Hrl : rlock_ok ts = true) by (unfold rlock_ok; rewrite Hw, Eww; reflexivity).
  destruct (existsb wants_rlock ts) eqn:Ewr.
  { apply existsb_exists in Ewr. destruct Ewr as [p [Hin Hp]].
    apply (mover_moves M false ts p Hin).
    destruct p; cbn in Hp; try discriminate; cbn; rewrite Hrl; discriminate. }
  pose proof (existsb_false_all _ _ Ewr) as Hwr.
  assert (Hi0 : inuse ts = 0).
  { apply filter_nil_len. intros p Hin. specialize (Hfm p Hin). specialize (Hww p Hin). specialize (Hwu p Hin). specialize (Hwr p Hin).
    destruct p; cbn in *; congruence. }
  destruct (forallb_false_ex _ _ Hnd) as [p [Hin Hp]].
  apply (mover_moves M false ts p Hin).
  specialize (Hfm p Hin). specialize (Hww p Hin). specialize (Hwu p Hin). specialize (Hwr p Hin). specialize (Hq' p Hin).
  destruct p; cbn in Hfm, Hww, Hwu, Hwr, Hq', Hp; try congruence.
  cbn [next]. rewrite Hi0. assert (E : (0 <? M) = true) by (apply Nat.ltb_lt; lia). rewrite E. discriminate.
Qed.

Lemma can_move_step M wl ts : can_move M wl ts = true -> exists ts', step M wl ts ts'.
Proof.
  unfold can_move. intros H. apply existsb_exists in H. destruct H as [p [Hin Hp]].
  destruct (in_split _ _ Hin) as [pre [post E]]. subst ts.
  destruct (next M wl (pre ++ p :: post) p) as [|p' r] eqn:En; [discriminate|].
  exists (pre ++ p' :: post). constructor. rewrite En. left. reflexivity.
Qed.

(* the code's system never enters the variant's extra state *)
Lemma next_no_q2h M ts p p' : In p' (next M false ts p) -> is_q2h p = false -> is_q2h p' = false.
Proof.
  destruct p; cbn [next]; intros H Hp; cbn in Hp; try discriminate;
    repeat match goal with
           | H : In _ (if ?c then _ else _) |- _ => destruct c
           | H : In _ (match ?b with 0 => _ | S _ => _ end) |- _ => destruct b
           | H : In _ (_ :: _) |- _ => destruct H as [H|H]; [subst; reflexivity|]
           | H : In _ [] |- _ => destruct H
           end.
Qed.

Lemma existsb_app' {A} (f : A -> bool) l1 l2 : existsb f (l1 ++ l2) = existsb f l1 || existsb f l2.
Proof. apply existsb_app. Qed.

Lemma step_no_q2h M ts ts' : step M false ts ts' -> existsb is_q2h ts = false -> existsb is_q2h ts' = false.
Proof.
  intros H. destruct H as [pre p post p' Hin]. rewrite !existsb_app. cbn [existsb]. intros E.
  apply orb_false_iff in E. destruct E as [E1 E2]. apply orb_false_iff in E2. destruct E2 as [E2 E3].
  rewrite E1, E3, (next_no_q2h M _ p p' Hin E2). reflexivity.
Qed.

(* ---------------------------------------------------------------- termination *)
Definition weight (p : pc) : nat :=
  match p with
  | Q0 b => 8 + 4 * b | Q1 b => 7 + 4 * b | Q2 b => 6 + 4 * b | Q2h b => 5 + 4 * b | Q3 b => 5 + 4 * b | Q4 b => 4 + 4 * b
  | Q3m b => 3 + 4 * b | Q4m b => 2 + 4 * b
  | Q5 b => 1 + 4 * b | QU0 b => 4 + 4 * b | QU1 b => 3 + 4 * b | QU2 b => 2 + 4 * b | Q6 => 0
  | P0 => 3 | P1 => 2 | P2 => 1 | P3 => 0
  | G0 => 2 | G1 => 1 | G2 => 0
  end.
Definition total (ts : list pc) : nat := list_sum (map weight ts).

Lemma next_decreases M wl ts p p' : In p' (next M wl ts p) -> weight p' < weight p.
Proof.
  destruct p; cbn [next]; intros H;
    repeat match goal with
           | H : In _ (if ?c then _ else _) |- _ => destruct c
           | H : In _ (match ?b with 0 => _ | S _ => _ end) |- _ => destruct b
           | H : In _ (_ :: _) |- _ => destruct H as [H|H]; [subst; cbn [weight]; lia|]
           | H : In _ [] |- _ => destruct H
           end.
Qed.

Lemma total_app l1 l2 : total (l1 ++ l2) = total l1 + total l2.
Proof. unfold total. rewrite map_app, list_sum_app. reflexivity. Qed.

Lemma step_decreases M wl ts ts' : step M wl ts ts' -> total ts' < total ts.
Proof.
  intros H. destruct H as [pre p post p' Hin]. rewrite !total_app.
  assert (Hc : forall q, total (q :: post) = weight q + total post) by (intros q; reflexivity).
  rewrite !Hc. pose proof (next_decreases M wl _ p p' Hin). lia.
Qed.

Inductive steps (M : nat) (wl : bool) : nat -> list pc -> list pc -> Prop :=
| steps_0 : forall ts, steps M wl 0 ts ts
| steps_S : forall n ts ts1 ts2, step M wl ts ts1 -> steps M wl n ts1 ts2 -> steps M wl (S n) ts ts2.

(* no schedule runs for more than [total ts] steps: every thread's work is finite, and every step is work *)
Theorem runs_are_bounded M wl n ts ts' : steps M wl n ts ts' -> n + total ts' <= total ts.
Proof.
  induction 1 as [ts|n ts ts1 ts2 H1 _ IH]; [lia|]. pose proof (step_decreases _ _ _ _ H1). lia.
Qed.

Theorem runs_terminate M wl : well_founded (fun ts' ts => step M wl ts ts').
Proof.
  apply (well_founded_lt_compat _ total). intros ts' ts H. exact (step_decreases _ _ _ _ H).
Qed.

Lemma steps_no_q2h M n ts ts' : steps M false n ts ts' -> existsb is_q2h ts = false -> existsb is_q2h ts' = false.
Proof. induction 1 as [ts|n ts ts1 ts2 H1 _ IH]; intros E; [exact E|]. apply IH. exact (step_no_q2h _ _ _ H1 E). Qed.

(* EVERYBODY IS SERVED: from any state of the code's system, along ANY schedule, as long as somebody is
   unfinished the run can be continued, and it cannot be continued for ever — so every maximal run ends
   with every request served and every update applied. *)
Theorem every_schedule_serves_everyone M n ts ts' :
  1 <= M -> existsb is_q2h ts = false -> steps M false n ts ts' ->
  n <= total ts /\ (all_done ts' = true \/ exists ts'', step M false ts' ts'').
Proof.
  intros HM Hq Hs. split.
  - pose proof (runs_are_bounded _ _ _ _ _ Hs). lia.
  - destruct (all_done ts') eqn:E; [left; reflexivity|right].
    apply can_move_step. apply progress; [exact HM|exact (steps_no_q2h _ _ _ _ Hs Hq)|exact E].
Qed.

Corollary a_run_that_cannot_go_on_has_served_everyone M n ts ts' :
  1 <= M -> existsb is_q2h ts = false -> steps M false n ts ts' -> (forall ts'', ~ step M false ts' ts'') -> all_done ts' = true.
Proof.
  intros HM Hq Hs Hstuck. destruct (every_schedule_serves_everyone M n ts ts' HM Hq Hs) as [_ [H|[ts'' H]]]; [exact H|].
  exfalso. exact (Hstuck ts'' H).
Qed.

(* a waiter in particular: it moves as soon as an instance is free, whatever the locks are doing *)
Theorem waiter_needs_only_an_instance M ts b : In (Q2 b) ts -> inuse ts < M -> next M false ts (Q2 b) = [Q3 b].
Proof. intros _ H. cbn [next]. apply Nat.ltb_lt in H. rewrite H. reflexivity. Qed.

(* ---------------------------------------------------------------- safety of the lock model itself *)
(* The lock state is derived from the program counters; these invariants say that the derivation is a lock: at most one
   holder of updateLock, at most one writer of stateLock and no reader beside it — and at most M instances in use.
   They hold in every state reachable from a state in which nobody holds anything (both variants of the waiter). *)
Definition writers (ts : list pc) : nat := length (filter is_writer ts).
Definition uholders (ts : list pc) : nat := length (filter has_ulock ts).
(* holders of updateLock that do not (yet) hold stateLock *)
Definition uonly (p : pc) : bool := match p with QU1 _ | P1 | G1 => true | _ => false end.
Definition Inv (M : nat) (ts : list pc) : Prop :=
  inuse ts <= M /\ writers ts + length (filter uonly ts) <= 1 /\ (writers ts = 1 -> readers ts = 0).

Lemma uholders_split l : length (filter has_ulock l) = length (filter is_writer l) + length (filter uonly l).
Proof. induction l as [|a l IH]; [reflexivity|]. destruct a; cbn [filter has_ulock is_writer uonly length]; lia. Qed.

Lemma cnt_mid (f : pc -> bool) pre x post :
  length (filter f (pre ++ x :: post)) = length (filter f pre) + (if f x then 1 else 0) + length (filter f post).
Proof. rewrite filter_app, app_length. cbn [filter]. destruct (f x); cbn [length]; lia. Qed.

Lemma existsb_false_cnt (f : pc -> bool) l : existsb f l = false -> length (filter f l) = 0.
Proof. intros H. apply filter_nil_len. exact (existsb_false_all f l H). Qed.

Lemma step_inv M wl ts ts' : step M wl ts ts' -> Inv M ts -> Inv M ts'.
Proof.
  intros H HI. destruct H as [pre p post p' Hin]. unfold Inv, inuse, readers, writers in *.
  rewrite !cnt_mid in *.
  destruct p; cbn [next] in Hin;
    repeat match goal with
           | H : In _ (if ?c then _ else _) |- _ => let E := fresh "G" in destruct c eqn:E
           | H : In _ (match ?b with 0 => _ | S _ => _ end) |- _ => destruct b
           | H : In _ (_ :: _) |- _ => destruct H as [H|H]; [subst p'|]
           | H : In _ [] |- _ => destruct H
           end;
    repeat match goal with
           | G : rlock_ok _ = true |- _ => unfold rlock_ok in G; apply andb_true_iff in G; destruct G as [?G1 ?G2]
           | G : wlock_ok _ = true |- _ => unfold wlock_ok, readers in G; apply andb_true_iff in G; destruct G as [?G1 ?G2]
           | G : ulock_ok _ = true |- _ => unfold ulock_ok in G; apply negb_true_iff in G; apply existsb_false_cnt in G;
                                           rewrite uholders_split, !cnt_mid in G
           | G : negb _ = true |- _ => apply negb_true_iff in G; apply existsb_false_cnt in G; rewrite cnt_mid in G
           | G : (_ =? 0) = true |- _ => apply Nat.eqb_eq in G; rewrite cnt_mid in G
           | G : (_ <? _) = true |- _ => apply Nat.ltb_lt in G; unfold inuse in G; rewrite cnt_mid in G
           end;
    cbn [is_reader is_writer uonly has_inst wants_write] in *; lia.
Qed.

Theorem reachable_states_are_lock_states M wl n ts ts' : steps M wl n ts ts' -> Inv M ts -> Inv M ts'.
Proof. induction 1 as [ts|n ts ts1 ts2 H1 _ IH]; intros HI; [exact HI|]. exact (IH (step_inv _ _ _ _ H1 HI)). Qed.

(* in particular from the start: requests, updates and queries that have not begun *)
Definition fresh (p : pc) : bool := match p with Q0 _ | P0 | G0 => true | _ => false end.
Lemma fresh_inv M ts : forallb fresh ts = true -> Inv M ts.
Proof.
  intros H. rewrite forallb_forall in H.
  assert (Z : forall f : pc -> bool, (forall p, fresh p = true -> f p = false) -> length (filter f ts) = 0).
  { intros f Hf. apply filter_nil_len. intros x Hx. apply Hf. exact (H x Hx). }
  unfold Inv, inuse, writers, readers.
  rewrite (Z has_inst), (Z uonly), (Z is_writer), (Z is_reader); try (intros p; destruct p; cbn; congruence).
  repeat split; lia.
Qed.

(* AT MOST M INSTANCES IN USE, one holder of updateLock, one writer of stateLock and no reader beside it — in every state
   reachable (under either variant of the waiter) from requests, updates and queries that have not begun *)
Theorem at_most_M_instances_in_use M wl n ts ts' :
  forallb fresh ts = true -> steps M wl n ts ts' ->
  inuse ts' <= M /\ uholders ts' <= 1 /\ writers ts' <= 1 /\ (writers ts' = 1 -> readers ts' = 0).
Proof.
  intros Hf Hs. destruct (reachable_states_are_lock_states _ _ _ _ _ Hs (fresh_inv M ts Hf)) as [A [B C]].
  unfold uholders. rewrite uholders_split. unfold writers in *. repeat split; try lia; exact C.
Qed.

(* ---------------------------------------------------------------- executable runs, and the variant *)
Fixpoint set_nth {A} (i : nat) (l : list A) (x : A) : list A :=
  match l, i with
  | [], _ => []
  | _ :: r, 0 => x :: r
  | a :: r, S i' => a :: set_nth i' r x
  end.

Definition exec1 (M : nat) (wl : bool) (ts : list pc) (ik : nat * nat) : option (list pc) :=
  match nth_error ts (fst ik) with
  | Some p => match nth_error (next M wl ts p) (snd ik) with
              | Some p' => Some (set_nth (fst ik) ts p')
              | None => None
              end
  | None => None
  end.

Fixpoint exec (M : nat) (wl : bool) (ts : list pc) (sched : list (nat * nat)) : option (list pc) :=
  match sched with
  | [] => Some ts
  | ik :: r => match exec1 M wl ts ik with Some ts' => exec M wl ts' r | None => None end
  end.

Lemma set_nth_app {A} (l1 : list A) a l2 x : set_nth (length l1) (l1 ++ a :: l2) x = l1 ++ x :: l2.
Proof. induction l1 as [|b l1 IH]; cbn; [reflexivity|]. rewrite IH. reflexivity. Qed.

Lemma exec1_step M wl ts ik ts' : exec1 M wl ts ik = Some ts' -> step M wl ts ts'.
Proof.
  unfold exec1. destruct ik as [i k]. cbn [fst snd].
  destruct (nth_error ts i) as [p|] eqn:Ep; [|discriminate].
  destruct (nth_error (next M wl ts p) k) as [p'|] eqn:Ek; [|discriminate].
  intros E. injection E as E. subst ts'.
  destruct (nth_error_split _ _ Ep) as [l1 [l2 [El Hl]]]. subst ts i.
  rewrite set_nth_app. constructor. exact (nth_error_In _ _ Ek).
Qed.

Lemma exec_steps M wl sched : forall ts ts', exec M wl ts sched = Some ts' -> steps M wl (length sched) ts ts'.
Proof.
  induction sched as [|ik r IH]; cbn; intros ts ts' H.
  - injection H as H. subst. constructor.
  - destruct (exec1 M wl ts ik) as [ts1|] eqn:E1; [|discriminate].
    econstructor; [exact (exec1_step _ _ _ _ _ E1)|exact (IH _ _ H)].
Qed.

(* THE VARIANT DEADLOCKS: with the read lock held while waiting for an instance, one instance, a request whose
   rule updates the pool and a second request: the first holds the instance and waits for the readers to
   drain, the second is a reader waiting for the instance.  Nobody can move; neither is finished. *)
Definition deadlock_schedule : list (nat * nat) :=
  [(0, 0); (0, 0); (0, 0); (0, 0); (0, 0); (0, 1);      (* request 0: ... rules running, calls an update: wants updateLock *)
   (1, 0); (1, 0); (1, 0);                               (* request 1: isCleared, then the read lock, now waits for an instance *)
   (0, 0)].                                              (* request 0 takes updateLock and waits for stateLock *)

Example deadlock_if_waiter_holds_rlock :
  exists ts, steps 1 true (length deadlock_schedule) [Q0 1; Q0 0] ts /\ all_done ts = false /\ can_move 1 true ts = false.
Proof.
  exists [QU1 0; Q2h 0]. split; [|split; reflexivity].
  apply exec_steps. vm_compute. reflexivity.
Qed.

(* and the same two requests, on the code's system, are served under that very schedule's continuation *)
Example same_requests_are_served_by_the_code :
  exists sched, exec 1 false [Q0 1; Q0 0] sched = Some [Q6; Q6].
Proof.
  exists [(0, 0); (0, 0); (0, 0); (0, 0); (0, 0); (0, 1); (1, 0); (1, 0); (0, 0); (0, 0); (0, 0); (0, 0); (1, 0); (1, 0); (1, 0); (1, 0)].
  vm_compute. reflexivity.
Qed.

(* non-vacuity of the hypotheses of [progress]: a state with waiters, a pending writer, readers and busy instances *)
Example progress_applies_somewhere :
  let ts := [Q2 0; Q2 1; Q3 0; QU1 2; Q0 0; P0; Q6; G0; Q3m 1] in
  existsb is_q2h ts = false /\ all_done ts = false /\ can_move 2 false ts = true.
Proof. cbn. repeat split; reflexivity. Qed.
