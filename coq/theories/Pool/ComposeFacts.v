(* Pool/ComposeFacts.v — facts about Pool/Compose.v: the executable check [runs_one_version] says what its
   comment says, and the result map the sort / concurrent models hand back is the WHOLE installed version. *)
From Coq Require Import String List ZArith Bool Lia Permutation.
From GV Require Import Rules.KcModel Rules.KcCheck Rules.KcProofs Pool.Model Engine.IR Engine.Hand Engine.Spec Pool.Compose.
Import ListNotations.

Definition apply_obs (s : mgmt) (o : op_obs) : mgmt := if oo_ok o then mstep idshuffle s (oo_op o) else s.

(* ---------- states ---------- *)
Lemma states_cons : forall s o rest, states s (o :: rest) = s :: states (apply_obs s o) rest.
Proof. reflexivity. Qed.

Lemma states_nil : forall s, states s [] = [s].
Proof. reflexivity. Qed.

Lemma states_length : forall ops s, length (states s ops) = S (length ops).
Proof.
  induction ops as [|o rest IH]; intros s.
  - reflexivity.
  - rewrite states_cons. cbn [length]. now rewrite IH.
Qed.

Lemma states_nth : forall ops s k, k <= length ops ->
  nth_error (states s ops) k = Some (fold_left apply_obs (firstn k ops) s).
Proof.
  induction ops as [|o rest IH]; intros s k Hk.
  - cbn [length] in Hk. assert (k = 0) by lia. subst k. reflexivity.
  - rewrite states_cons. destruct k as [|k].
    + reflexivity.
    + cbn [nth_error firstn fold_left]. apply IH. cbn [length] in Hk. lia.
Qed.

(* ---------- numbered lists ---------- *)
Lemma forallb_combine_seq : forall (A : Type) (f : nat * A -> bool) (l : list A) a,
  forallb f (combine (seq a (length l)) l) = true <->
  (forall j o, nth_error l j = Some o -> f (a + j, o) = true).
Proof.
  intros A f. induction l as [|x l IH]; intros a.
  - cbn. split; [|reflexivity]. intros _ j o H. destruct j; discriminate.
  - cbn [length seq combine forallb]. rewrite andb_true_iff, IH. split.
    + intros [H1 H2] j o Hn. destruct j as [|j]; cbn in Hn.
      * inversion Hn. subst. now rewrite Nat.add_0_r.
      * rewrite Nat.add_succ_r. apply (H2 j o Hn).
    + intros H. split.
      * specialize (H 0 x eq_refl). now rewrite Nat.add_0_r in H.
      * intros j o Hn. specialize (H (S j) o Hn). now rewrite Nat.add_succ_r in H.
Qed.

Lemma in_combine_seq : forall (A : Type) (l : list A) a k s,
  In (k, s) (combine (seq a (length l)) l) <-> exists j, k = a + j /\ nth_error l j = Some s.
Proof.
  intros A. induction l as [|x l IH]; intros a k s.
  - cbn. split; [intros []|]. intros (j & _ & H). destruct j; discriminate.
  - cbn [length seq combine In]. rewrite IH. split.
    + intros [E|(j & -> & Hn)].
      * inversion E. subst. exists 0. split; [lia|reflexivity].
      * exists (S j). split; [lia|exact Hn].
    + intros (j & -> & Hn). destruct j as [|j]; cbn in Hn.
      * left. inversion Hn. f_equal. lia.
      * right. exists j. split; [lia|exact Hn].
Qed.

(* ---------- admissible ---------- *)
Lemma admissible_spec : forall ops e k,
  admissible ops e k = true <->
  (forall j o, nth_error ops j = Some o ->
     (S j <= k -> oo_begin o < es_end e) /\ (k < S j -> es_begin e < oo_end o)).
Proof.
  intros ops e k. unfold admissible. rewrite forallb_combine_seq. split.
  - intros H j o Hn. specialize (H j o Hn). cbv beta iota zeta in H.
    change (1 + j) with (S j) in H.
    destruct (Nat.leb (S j) k) eqn:E.
    + apply Nat.leb_le in E. apply Nat.ltb_lt in H. split; intros; [assumption|lia].
    + apply Nat.leb_gt in E. apply Nat.ltb_lt in H. split; intros; [lia|assumption].
  - intros H j o Hn. destruct (H j o Hn) as [H1 H2]. cbv beta iota zeta.
    change (1 + j) with (S j).
    destruct (Nat.leb (S j) k) eqn:E.
    + apply Nat.leb_le in E. apply Nat.ltb_lt. auto.
    + apply Nat.leb_gt in E. apply Nat.ltb_lt. apply H2. lia.
Qed.

(* ---------- same_entries ---------- *)
Lemma NoDup_map_inv' : forall (A B : Type) (f : A -> B) l, NoDup (map f l) -> NoDup l.
Proof.
  intros A B f. induction l as [|x l IH]; cbn; intros H.
  - constructor.
  - inversion H as [|y ys Hn Hd]. subst. constructor.
    + intros Hi. apply Hn. now apply in_map.
    + now apply IH.
Qed.

Lemma same_entries_incl : forall a b, same_entries a b = true -> incl a b.
Proof.
  intros a b H. unfold same_entries in H.
  apply andb_true_iff in H. destruct H as [_ H3].
  rewrite forallb_forall in H3. intros [n t] Hi. specialize (H3 _ Hi). cbn [fst snd] in H3.
  destruct (alookup n b) as [t'|] eqn:E; [|discriminate].
  apply Z.eqb_eq in H3. subst t'. now apply alookup_in.
Qed.

Lemma same_entries_spec : forall a b, same_entries a b = true -> NoDup (map fst b) ->
  forall n t, In (n, t) a <-> In (n, t) b.
Proof.
  intros a b H _ n t. pose proof (same_entries_incl a b H) as Hincl.
  unfold same_entries in H.
  apply andb_true_iff in H. destruct H as [H12 _].
  apply andb_true_iff in H12. destruct H12 as [H1 H2].
  apply Nat.eqb_eq in H1. apply nodupb_NoDup in H2. apply NoDup_map_inv' in H2.
  split.
  - apply Hincl.
  - apply (NoDup_length_incl H2); [lia|exact Hincl].
Qed.

(* ---------- runs_one_version ---------- *)
Theorem runs_one_version_spec : forall s0 ops e,
  runs_one_version s0 ops e = true <->
  exists k, k <= length ops /\ admissible ops e k = true /\
    same_entries (es_got e) (expected_result (es_shape e) (fold_left apply_obs (firstn k ops) s0)) = true.
Proof.
  intros s0 ops e. unfold runs_one_version. cbv zeta. rewrite existsb_exists. split.
  - intros ([k s] & Hin & Hf). apply in_combine_seq in Hin. destruct Hin as (j & -> & Hn).
    change (0 + j) with j in Hf. cbv beta iota in Hf.
    apply andb_true_iff in Hf. destruct Hf as [Ha Hs].
    assert (Hj : j <= length ops).
    { assert (j < length (states s0 ops)) by (apply nth_error_Some; congruence).
      rewrite states_length in H. lia. }
    rewrite (states_nth ops s0 j Hj) in Hn. inversion Hn. subst s.
    exists j. auto.
  - intros (k & Hk & Ha & Hs).
    exists (k, fold_left apply_obs (firstn k ops) s0). split.
    + apply in_combine_seq. exists k. split; [reflexivity|now apply states_nth].
    + cbv beta iota. now rewrite Ha, Hs.
Qed.

(* ---------- what the whole-container entry points hand back ---------- *)
Lemma sort_prefix_continue : forall l stop, sort_prefix true false stop l = l.
Proof.
  induction l as [|r l IH]; intros stop; cbn [sort_prefix].
  - reflexivity.
  - rewrite andb_false_r. cbn [andb]. now rewrite IH.
Qed.

Lemma exec_keys : forall c, c_rules c <> [] -> c_b c = true -> c_stop0 c = false ->
  o_map (spec_outcome EExecute c) = Some (result_entries (c_rules c)).
Proof.
  intros c Hne Hb Hs. unfold spec_outcome, spec. destruct (c_rules c) as [|r l] eqn:E; [congruence|].
  cbn [is_nil]. unfold sorted_stage. rewrite Hb, Hs, sort_prefix_continue.
  cbn [ne filter o_map]. unfold executed. cbn [flat_map seg_rules]. now rewrite app_nil_r.
Qed.

Lemma conc_keys : forall c, c_rules c <> [] ->
  o_map (spec_outcome EExecuteConcurrent c) = Some (result_entries (c_rules c)).
Proof.
  intros c Hne. unfold spec_outcome, spec. destruct (c_rules c) as [|r l] eqn:E; [congruence|].
  cbn [is_nil o_map]. unfold executed. cbn [flat_map seg_rules]. now rewrite app_nil_r.
Qed.

Lemma existsb_eqb_notin : forall n l, ~ In n l -> existsb (String.eqb n) l = false.
Proof.
  intros n l H. destruct (existsb (String.eqb n) l) eqn:E; [|reflexivity].
  apply existsb_exists in E. destruct E as (x & Hi & Hx). apply String.eqb_eq in Hx. subst x. contradiction.
Qed.

(* key-level view, kept from the key-only model *)
Lemma fold_add_key : forall l acc, NoDup (acc ++ map rname l) ->
  fold_left add_key (map erule_of l) acc = acc ++ map rname l.
Proof.
  induction l as [|r l IH]; intros acc ND; cbn [map fold_left].
  - now rewrite app_nil_r.
  - unfold add_key at 2. cbn [erule_of eret en].
    assert (Hn : ~ In (rname r) acc).
    { intros Hi. apply NoDup_remove_2 in ND. apply ND. apply in_or_app. now left. }
    rewrite (existsb_eqb_notin _ _ Hn).
    rewrite IH.
    + now rewrite <- app_assoc.
    + rewrite <- app_assoc. exact ND.
Qed.

Lemma set_entry_absent : forall m n v, ~ In n (map fst m) -> set_entry m n v = m ++ [(n, v)].
Proof.
  induction m as [|[k w] m IH]; intros n v H; [reflexivity|].
  cbn [set_entry map fst In app] in *.
  destruct (String.eqb k n) eqn:E.
  - apply String.eqb_eq in E. exfalso. apply H. now left.
  - rewrite IH; [reflexivity|]. intro Hi. apply H. now right.
Qed.

Definition entry_of (r : rule) : string * option Z := (rname r, Some (rbody r)).

Lemma fold_add_entry : forall l acc, NoDup (map fst acc ++ map rname l) ->
  fold_left add_entry (map erule_of l) acc = acc ++ map entry_of l.
Proof.
  induction l as [|r l IH]; intros acc ND; cbn [map fold_left].
  - now rewrite app_nil_r.
  - unfold add_entry at 2. cbn [erule_of eret en eval].
    assert (Hn : ~ In (rname r) (map fst acc)).
    { intros Hi. apply NoDup_remove_2 in ND. apply ND. apply in_or_app. now left. }
    rewrite (set_entry_absent _ _ _ Hn).
    rewrite IH.
    + now rewrite <- app_assoc.
    + rewrite map_app, <- app_assoc. exact ND.
Qed.

Lemma result_entries_probe : forall l, NoDup (map rname l) -> result_entries (map erule_of l) = map entry_of l.
Proof. intros l ND. unfold result_entries. now rewrite fold_add_entry. Qed.

Lemma result_keys_probe : forall l, NoDup (map rname l) -> result_keys (map erule_of l) = map rname l.
Proof.
  intros l ND. unfold result_keys. rewrite (result_entries_probe _ ND), map_map. reflexivity.
Qed.

Lemma inv_lookup : forall k r, Inv k -> In r (sorted k) -> alookup (rname r) (ents k) = Some r.
Proof.
  intros k r (ND & NM & PM & _) Hi.
  apply (Permutation_in _ PM) in Hi. apply in_map_iff in Hi. destruct Hi as ([n r'] & E & Hi).
  cbn in E. subst r'. rewrite (NM n r Hi). now apply in_alookup.
Qed.

(* the values are read from the result map itself (each probe rule returns its body tag) *)
Lemma whole_version_entries : forall k x, Inv k ->
  (In x (flat_map (fun kv : string * option Z => match snd kv with Some t => [(fst kv, t)] | None => [] end)
                  (result_entries (map erule_of (sorted k)))) <->
   exists r, In r (sorted k) /\ x = (rname r, rbody r)).
Proof.
  intros k x HI. rewrite (result_entries_probe _ (inv_names_unique k HI)).
  rewrite in_flat_map. split.
  - intros (kv & Hn & Hx). apply in_map_iff in Hn. destruct Hn as (r & <- & Hr).
    cbn [entry_of fst snd] in Hx. destruct Hx as [<-|[]]. exists r. auto.
  - intros (r & Hr & ->). exists (entry_of r). split; [now apply in_map|].
    cbn [entry_of fst snd]. now left.
Qed.

Lemma map_not_nil : forall (A B : Type) (f : A -> B) l, l <> [] -> map f l <> [].
Proof. intros A B f l H. destruct l; [congruence|discriminate]. Qed.

(* the sort model and the concurrent model hand back the WHOLE version: one entry per rule of the container, with that rule's body tag *)
Theorem sort_model_returns_the_whole_version : forall s n m names layers x,
  m_clear s = false -> Inv (m_master s) -> sorted (m_master s) <> [] ->
  (In x (expected_result (mkShape EExecute n m names layers) s) <->
   exists r, In r (sorted (m_master s)) /\ x = (rname r, rbody r)).
Proof.
  intros s n m names layers x Hc HI Hne. unfold expected_result. rewrite Hc. cbv zeta.
  cbn [sh_entry sh_n sh_m sh_names sh_layers].
  rewrite exec_keys; [|cbn [c_rules]; now apply map_not_nil|reflexivity|reflexivity].
  cbn [c_rules]. now apply whole_version_entries.
Qed.

Theorem concurrent_model_returns_the_whole_version : forall s n m names layers x,
  m_clear s = false -> Inv (m_master s) -> sorted (m_master s) <> [] ->
  (In x (expected_result (mkShape EExecuteConcurrent n m names layers) s) <->
   exists r, In r (sorted (m_master s)) /\ x = (rname r, rbody r)).
Proof.
  intros s n m names layers x Hc HI Hne. unfold expected_result. rewrite Hc. cbv zeta.
  cbn [sh_entry sh_n sh_m sh_names sh_layers].
  rewrite conc_keys; [|cbn [c_rules]; now apply map_not_nil].
  cbn [c_rules]. now apply whole_version_entries.
Qed.

Theorem cleared_pool_returns_nothing : forall sh s, m_clear s = true -> expected_result sh s = [].
Proof. intros sh s H. unfold expected_result. now rewrite H. Qed.

Print Assumptions runs_one_version_spec.
Print Assumptions sort_model_returns_the_whole_version.
Print Assumptions concurrent_model_returns_the_whole_version.
