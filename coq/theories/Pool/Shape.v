(* Pool/Shape.v — the structural facts about engine/gengine_pool.go that the pool theorems
   rely on, as a decidable checker over the records the translator T3 regenerates on every
   run (gen/Gen_Pool.v).  Definitions + the checker; the per-run obligation is
   [pool_shape_ok gen_wrappers ... = true] (obligations/GenPoolOk.v).

   What each flag stands for in Pool/Model.v:
   - cleared test first, then prepare (= AGet; AInject keys), error of prepare returned;
   - a deferred function registered BEFORE the engine call that first deletes exactly the
     injected keys and then starts the put goroutine (= ADone enabled on every path out of
     the call: normal return, rule error, panic — C17_release_always_enabled, C06_nothing_left_after_return);
   - the map handed back is the engine's map of this very call (C11: fresh per call);
   - prepare takes ONE snapshot of the instance's rule container under the update lock
     (= HSnap atomic w.r.t. updates), updates hold that lock from the first store to the last,
     publish to all instances and never store into a field of a published container (C07). *)
From Coq Require Import String List Bool.
Import ListNotations.
Local Open Scope string_scope.

Record wrapper := mkW {
  w_name : string;
  w_entry : string;              (* engine method(s) called, joined by + *)
  w_prepare : string;
  w_cleared_first : bool;
  w_checks_prepare_err : bool;
  w_defer_deletes_injected : bool;
  w_defer_puts : bool;
  w_defer_before_call : bool;
  w_returns_engine_map : bool
}.

Record update_shape := mkU {
  u_name : string;
  u_found : bool;
  u_locked_throughout : bool;
  u_all_instances : bool;
  u_inplace_stores : list string    (* stores into fields of a rule container reachable by executions *)
}.

Definition em4 (a b c d : string) : string := (a ++ "+" ++ b ++ "+" ++ c ++ "+" ++ d).

(* wrapper name -> the engine entry point(s) it must call *)
Definition expected_entry (n : string) : string :=
  if String.eqb n "ExecuteRulesWithSpecifiedEM" then em4 "Execute" "ExecuteConcurrent" "ExecuteMixModel" "ExecuteInverseMixModel"
  else if String.eqb n "ExecuteRulesWithMultiInputWithSpecifiedEM" then em4 "Execute" "ExecuteConcurrent" "ExecuteMixModel" "ExecuteInverseMixModel"
  else if String.eqb n "ExecuteSelectedWithSpecifiedEM" then em4 "ExecuteSelectedRules" "ExecuteSelectedRulesConcurrent" "ExecuteSelectedRulesMixModel" "ExecuteSelectedRulesInverseMixModel"
  else n.

Definition wrapper_ok (w : wrapper) : bool :=
  String.eqb (w_entry w) (expected_entry (w_name w)) &&
  (String.eqb (w_prepare w) "prepare" || String.eqb (w_prepare w) "prepareWithMultiInput") &&
  w_cleared_first w && w_checks_prepare_err w && w_defer_deletes_injected w && w_defer_puts w &&
  w_defer_before_call w && w_returns_engine_map w.

Definition expected_wrappers : list string :=
  ["Execute"; "ExecuteConcurrent"; "ExecuteDAGModel"; "ExecuteInverseMixModel"; "ExecuteMixModel";
   "ExecuteMixModelWithStopTagDirect"; "ExecuteNConcurrentMConcurrent"; "ExecuteNConcurrentMSort";
   "ExecuteNSortMConcurrent"; "ExecuteRulesWithMultiInputWithSpecifiedEM"; "ExecuteRulesWithSpecifiedEM";
   "ExecuteSelectedNConcurrentMConcurrent"; "ExecuteSelectedNConcurrentMSort"; "ExecuteSelectedNSortMConcurrent";
   "ExecuteSelectedRules"; "ExecuteSelectedRulesConcurrent"; "ExecuteSelectedRulesInverseMixModel";
   "ExecuteSelectedRulesMixModel"; "ExecuteSelectedRulesWithControl"; "ExecuteSelectedRulesWithControlAndStopTag";
   "ExecuteSelectedRulesWithControlAndStopTagAsGivenSortedName"; "ExecuteSelectedRulesWithControlAsGivenSortedName";
   "ExecuteSelectedWithSpecifiedEM"; "ExecuteWithStopTagDirect"].

Fixpoint list_str_eqb (a b : list string) : bool :=
  match a, b with
  | [], [] => true
  | x :: a', y :: b' => String.eqb x y && list_str_eqb a' b'
  | _, _ => false
  end.

(* C06 / C17: every wrapper has the proved shape (extra wrappers are fine as long as they have it too) *)
Definition wrappers_ok (ws : list wrapper) : bool :=
  forallb wrapper_ok ws &&
  forallb (fun n => existsb (fun w => String.eqb (w_name w) n) ws) expected_wrappers.

Definition bad_wrappers (ws : list wrapper) : list string :=
  map w_name (filter (fun w => negb (wrapper_ok w)) ws) ++
  filter (fun n => negb (existsb (fun w => String.eqb (w_name w) n) ws)) expected_wrappers.

(* C07 / C16: the management methods *)
Definition update_ok (u : update_shape) : bool :=
  u_found u &&
  (if String.eqb (u_name u) "updateIncremental" then true else u_locked_throughout u) &&
  (if String.eqb (u_name u) "SetExecModel" || String.eqb (u_name u) "updateIncremental" then true else u_all_instances u) &&
  match u_inplace_stores u with [] => true | _ => false end.

Definition updates_ok (prepare_snapshots snapshot_locked : bool) (us : list update_shape) : bool :=
  prepare_snapshots && snapshot_locked && forallb update_ok us && Nat.eqb (length us) 6.

Definition bad_updates (us : list update_shape) : list string :=
  map u_name (filter (fun u => negb (update_ok u)) us).
