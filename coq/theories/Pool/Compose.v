(* Pool/Compose.v — the pool composed with the engine: what ONE pooled execution hands back when it runs
   ONE installed version of the rule set, and the check that every observed execution did exactly that.

   Pool/Model.v gives the state after each management call ([mstep]: the master container of every version);
   Engine/Spec.v gives, for an entry point and a rule container, the rules that run and the result map.  Composing
   them turns "exactly one installed version — all rules of that version and none of another" into an executable
   statement about the observable result map: the (rule name, body tag) entries an execution returns must be the
   result map of its entry point on the container of ONE version k, and k must be admissible for the execution's
   interval — its management call began before the execution ended, and no later call had returned before the
   execution began (C07's two visibility inequalities, theorems C07_updates_visible_afterwards / C07_no_future_version).

   Probe rules always return (their body tag) and never fail, so the result map binds exactly the rules that ran,
   each to its body tag. *)
From Coq Require Import String List ZArith Bool.
From GV Require Import Rules.KcModel Rules.KcCheck Pool.Model Engine.IR Engine.Hand Engine.Spec.
Import ListNotations.

Definition erule_of (r : rule) : erule := mkER (rname r) (rsal r) false true false (Some (rbody r)).

Record call_shape := mkShape {
  sh_entry : entry; sh_n : Z; sh_m : Z; sh_names : list string; sh_layers : list (list string) }.

(* the entries one execution of this shape hands back when it runs the version held by pool state [s] *)
Definition expected_result (sh : call_shape) (s : mgmt) : list (string * Z) :=
  if m_clear s then [] else
  let k := m_master s in
  let c := mkCfg (map erule_of (sorted k)) true (sh_n sh) (sh_m sh) (sh_names sh) (sh_layers sh) false None in
  match o_map (spec_outcome (sh_entry sh) c) with
  | Some m => flat_map (fun kv => match snd kv with Some t => [(fst kv, t)] | None => [] end) m
  | None => []
  end.

(* ---- the same with rules that FAIL: [fails n] says that the rule named n fails (and therefore returns nothing).  The
   result then depends on the execution MODEL — the sort and concurrent models run the other rules, the mix model runs
   nothing else when the top rule fails, the inverse-mix model does not run the lowest rule when another failed —
   which makes the model a pool actually uses observable through the result map (C16). ---- *)
Definition erule_of_k (fails : string -> bool) (r : rule) : erule :=
  mkER (rname r) (rsal r) (fails (rname r)) (negb (fails (rname r))) false (Some (rbody r)).

Definition expected_result_k (fails : string -> bool) (sh : call_shape) (s : mgmt) : list (string * Z) :=
  if m_clear s then [] else
  let k := m_master s in
  let c := mkCfg (map (erule_of_k fails) (sorted k)) true (sh_n sh) (sh_m sh) (sh_names sh) (sh_layers sh) false None in
  match o_map (spec_outcome (sh_entry sh) c) with
  | Some m => flat_map (fun nv => match snd nv with Some v => [(fst nv, v)] | None => [] end) m
  | None => []
  end.

(* the entry point behind the *SpecifiedEM wrappers for each execution model *)
Definition entry_of_model (m : nat) : entry :=
  match m with
  | 1 => EExecute
  | 2 => EExecuteConcurrent
  | 3 => EExecuteMixModel
  | _ => EExecuteInverseMixModel
  end.

(* what an execution through a *SpecifiedEM wrapper hands back in pool state [s]: the denoted model on the denoted set *)
Definition expected_em_result (fails : string -> bool) (s : mgmt) : list (string * Z) :=
  expected_result_k fails (mkShape (entry_of_model (m_model s)) 0 0 [] []) s.

Record op_obs := mkOO { oo_op : mop; oo_begin : nat; oo_end : nat; oo_ok : bool }.

(* version 0 = the initial set; version j = the state after the j-th management call (a call that failed installs nothing) *)
Fixpoint states (s : mgmt) (ops : list op_obs) : list mgmt :=
  s :: match ops with
       | [] => []
       | o :: rest => states (if oo_ok o then mstep idshuffle s (oo_op o) else s) rest
       end.

Record exec_set := mkES {
  es_scn : nat; es_req : nat; es_shape : call_shape;
  es_got : list (string * Z);           (* (rule name, body tag) for every entry of the returned map *)
  es_begin : nat; es_end : nat }.

Definition admissible (ops : list op_obs) (e : exec_set) (k : nat) : bool :=
  forallb (fun jo => let '(j, o) := jo in
             if Nat.leb j k then Nat.ltb (oo_begin o) (es_end e)
             else Nat.ltb (es_begin e) (oo_end o))
          (combine (seq 1 (length ops)) ops).

Definition same_entries (a b : list (string * Z)) : bool :=
  (Nat.eqb (length a) (length b) && nodupb (map fst a) &&
   forallb (fun x => match alookup (fst x) b with Some t => Z.eqb t (snd x) | None => false end) a)%bool.

Definition runs_one_version (s0 : mgmt) (ops : list op_obs) (e : exec_set) : bool :=
  let sts := states s0 ops in
  existsb (fun ks => let '(k, s) := ks in
             (admissible ops e k && same_entries (es_got e) (expected_result (es_shape e) s))%bool)
          (combine (seq 0 (length sts)) sts).

Definition check_exec_set (s0 : mgmt) (ops : list op_obs) (e : exec_set) : list (nat * nat) :=
  if runs_one_version s0 ops e then [] else [(es_scn e, 38)].
