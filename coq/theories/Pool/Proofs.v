(* Pool/Proofs.v — proofs about the three pool models of Pool/Model.v:
   (1) capacity / isolation (C17, C06), (2) management (C16), (3) hot updates (C07).
   The property files Props/C06.v, C07.v, C16.v, C17.v only restate what is proved here. *)
From Coq Require Import String List ZArith Bool Lia Permutation Sorted.
From GV Require Import Rules.KcModel Rules.KcProofs Pool.Model.
Import ListNotations.

(* ================================================================== *)
(* (1) capacity and isolation                                           *)
(* ================================================================== *)

Lemma seq_split_min : forall mn mx, mn <= mx -> seq 0 mn ++ seq mn (mx - mn) = seq 0 mx.
Proof.
  intros mn mx H. symmetry. transitivity (seq 0 (mn + (mx - mn))).
  - f_equal. lia.
  - apply seq_app.
Qed.

(* ---------- tag_of / remove_req / remove_first ---------- *)
Lemma tag_of_in : forall q l t, tag_of q l = Some t -> In (q, t) l.
Proof.
  induction l as [|[q' t'] l IH]; intros t H; cbn in *; [discriminate|].
  destruct (Nat.eqb q q') eqn:E.
  - apply Nat.eqb_eq in E. inversion H. subst. now left.
  - right. now apply IH.
Qed.

Lemma tag_of_none : forall q l, tag_of q l = None -> ~ In q (map fst l).
Proof.
  induction l as [|[q' t'] l IH]; intros H; cbn in *; [tauto|].
  destruct (Nat.eqb q q') eqn:E; [discriminate|].
  apply Nat.eqb_neq in E. intros [H1|H1]; [congruence|]. now apply IH.
Qed.

Lemma in_tag_of_some : forall q t l, In (q, t) l -> exists t', tag_of q l = Some t'.
Proof.
  induction l as [|[q' t'] l IH]; intros H; cbn in *; [tauto|].
  destruct (Nat.eqb q q') eqn:E; [now eexists|].
  destruct H as [H|H]; [|now apply IH].
  inversion H. subst. rewrite Nat.eqb_refl in E. discriminate.
Qed.

Lemma in_tag_of : forall q t l, NoDup (map fst l) -> In (q, t) l -> tag_of q l = Some t.
Proof.
  induction l as [|[q' t'] l IH]; intros ND H; cbn in *; [tauto|].
  inversion ND as [|? ? Hn ND']; subst.
  destruct H as [H|H].
  - inversion H; subst. now rewrite Nat.eqb_refl.
  - destruct (Nat.eqb q q') eqn:E; [|now apply IH].
    apply Nat.eqb_eq in E. subst q'. exfalso. apply Hn.
    change q with (fst (q, t)). now apply in_map.
Qed.

Lemma remove_req_perm : forall q l t,
  tag_of q l = Some t -> Permutation l ((q, t) :: remove_req q l).
Proof.
  induction l as [|[q' t'] l IH]; intros t H; cbn in *; [discriminate|].
  destruct (Nat.eqb q q') eqn:E.
  - apply Nat.eqb_eq in E. inversion H. subst. reflexivity.
  - rewrite perm_swap. constructor. now apply IH.
Qed.

Lemma remove_req_in : forall q x l, fst x <> q -> In x l -> In x (remove_req q l).
Proof.
  induction l as [|[q' t'] l IH]; intros Hne H; cbn in *; [tauto|].
  destruct (Nat.eqb q q') eqn:E.
  - apply Nat.eqb_eq in E. destruct H as [H|H]; [|assumption].
    subst x. cbn in Hne. congruence.
  - destruct H as [H|H]; [now left|right; now apply IH].
Qed.

Lemma remove_req_incl : forall q l x, In x (remove_req q l) -> In x l.
Proof.
  induction l as [|[q' t'] l IH]; intros x H; cbn in *; [tauto|].
  destruct (Nat.eqb q q'); [now right|].
  destruct H as [H|H]; [now left|right; now apply IH].
Qed.

Lemma remove_req_nodup : forall q l, NoDup (map fst l) -> NoDup (map fst (remove_req q l)).
Proof.
  induction l as [|[q' t'] l IH]; intros ND; cbn in *; [constructor|].
  inversion ND as [|? ? Hn ND']; subst.
  destruct (Nat.eqb q q'); [assumption|].
  cbn. constructor; [|now apply IH].
  intros H. apply Hn. apply in_map_iff in H. destruct H as (x & Hx & Hin).
  apply in_map_iff. exists x. split; [assumption|]. now apply remove_req_incl in Hin.
Qed.

Lemma remove_first_perm : forall t l, In t l -> Permutation l (t :: remove_first t l).
Proof.
  induction l as [|x l IH]; intros H; cbn in *; [tauto|].
  destruct (Nat.eqb x t) eqn:E.
  - apply Nat.eqb_eq in E. now subst.
  - apply Nat.eqb_neq in E. destruct H as [H|H]; [congruence|].
    rewrite perm_swap. constructor. now apply IH.
Qed.

Lemma existsb_eqb_in : forall t l, existsb (Nat.eqb t) l = true <-> In t l.
Proof.
  intros t l. rewrite existsb_exists. split.
  - intros (x & Hx & E). apply Nat.eqb_eq in E. now subst.
  - intros H. exists t. split; [assumption|apply Nat.eqb_refl].
Qed.

Lemma perm_move3 : forall (a b c d : list nat) t,
  Permutation (a ++ b ++ (t :: c) ++ d) (t :: a ++ b ++ c ++ d).
Proof.
  intros. cbn. rewrite !(app_assoc a b). symmetry. apply Permutation_middle.
Qed.

Lemma perm_move4 : forall (a b c d : list nat) t,
  Permutation (a ++ b ++ c ++ t :: d) (t :: a ++ b ++ c ++ d).
Proof.
  intros. rewrite !(app_assoc a b), !(app_assoc (a ++ b) c). symmetry. apply Permutation_middle.
Qed.

(* ---------- the invariant ---------- *)
Lemma cap_inv_init : forall mn mx, mn <= mx -> CapInv (cap_init mn mx).
Proof.
  intros mn mx H. unfold CapInv, cap_init, all_tags. cbn [free addl infl pend keys c_max map].
  rewrite !app_nil_r. rewrite (seq_split_min mn mx H).
  split; [reflexivity|]. split; [intros t k q []|constructor].
Qed.

Lemma cstep_bounds : forall s a s', cstep s a = Some s' -> c_min s' = c_min s /\ c_max s' = c_max s.
Proof.
  intros s a s' H. destruct a as [q|q ks|q|t]; cbn -[Nat.ltb] in H.
  - destruct (tag_of q (infl s)); [discriminate|].
    destruct (free s); [destruct (addl s); [discriminate|]|]; inversion H; now subst.
  - destruct (tag_of q (infl s)); [|discriminate]. inversion H; now subst.
  - destruct (tag_of q (infl s)); [|discriminate]. inversion H; now subst.
  - destruct (existsb (Nat.eqb t) (pend s)); [|discriminate].
    destruct (Nat.ltb t (c_min s)); inversion H; now subst.
Qed.

Lemma cap_inv_step : forall s a s', CapInv s -> cstep s a = Some s' -> CapInv s'.
Proof.
  intros s a s' (HP & HK & HN) H. unfold CapInv, all_tags in *.
  destruct a as [q|q ks|q|t]; cbn -[Nat.ltb] in H.
  - (* AGet *)
    destruct (tag_of q (infl s)) eqn:Eq; [discriminate|].
    apply tag_of_none in Eq.
    destruct (free s) as [|t f'] eqn:Ef.
    + destruct (addl s) as [|t a'] eqn:Ea; [discriminate|].
      inversion H; subst s'; clear H. cbn [free addl infl pend keys c_max map fst snd].
      split; [|split].
      * rewrite perm_move3. exact HP.
      * intros t0 k q0 Hin. right. now apply HK in Hin.
      * constructor; assumption.
    + inversion H; subst s'; clear H. cbn [free addl infl pend keys c_max map fst snd].
      split; [|split].
      * rewrite perm_move3. exact HP.
      * intros t0 k q0 Hin. right. now apply HK in Hin.
      * constructor; assumption.
  - (* AInject *)
    destruct (tag_of q (infl s)) as [t|] eqn:Eq; [|discriminate].
    inversion H; subst s'; clear H. cbn [free addl infl pend keys c_max].
    split; [exact HP|]. split; [|exact HN].
    intros t0 k q0 Hin. apply in_app_or in Hin. destruct Hin as [Hin|Hin].
    + apply in_map_iff in Hin. destruct Hin as (k' & E & _). inversion E; subst.
      now apply tag_of_in.
    + now apply HK in Hin.
  - (* ADone *)
    destruct (tag_of q (infl s)) as [t|] eqn:Eq; [|discriminate].
    inversion H; subst s'; clear H. cbn [free addl infl pend keys c_max].
    split; [|split].
    + rewrite perm_move4. rewrite <- HP.
      rewrite (Permutation_map snd (remove_req_perm q (infl s) t Eq)). cbn [map snd].
      symmetry. apply perm_move3.
    + intros t0 k q0 Hin. apply filter_In in Hin. destruct Hin as (Hin & Hne).
      cbn in Hne. apply negb_true_iff, Nat.eqb_neq in Hne.
      apply HK in Hin. apply remove_req_in; [exact Hne|exact Hin].
    + now apply remove_req_nodup.
  - (* APut *)
    destruct (existsb (Nat.eqb t) (pend s)) eqn:Ee; [|discriminate].
    apply existsb_eqb_in in Ee. pose proof (remove_first_perm t (pend s) Ee) as PP.
    assert (HP' : Permutation (t :: free s ++ addl s ++ map snd (infl s) ++ remove_first t (pend s))
                              (seq 0 (c_max s))).
    { rewrite <- HP. rewrite PP at 2. symmetry. apply perm_move4. }
    destruct (Nat.ltb t (c_min s)); inversion H; subst s'; clear H;
      cbn [free addl infl pend keys c_max]; (split; [|split; assumption]).
    + rewrite <- HP'. rewrite <- app_assoc. cbn. symmetry. apply Permutation_middle.
    + rewrite <- HP'. rewrite <- (app_assoc (addl s)). cbn.
      rewrite app_assoc. symmetry. rewrite app_assoc. apply Permutation_middle.
Qed.

Lemma csteps_inv : forall acts s s', CapInv s -> csteps s acts = Some s' ->
  CapInv s' /\ c_min s' = c_min s /\ c_max s' = c_max s.
Proof.
  induction acts as [|a acts IH]; intros s s' HI H; cbn in H.
  - inversion H; subst. auto.
  - destruct (cstep s a) as [s1|] eqn:E; [|discriminate].
    destruct (cstep_bounds _ _ _ E) as (E1 & E2).
    destruct (IH s1 s' (cap_inv_step _ _ _ HI E) H) as (HI' & E3 & E4).
    split; [assumption|]. split; congruence.
Qed.

Lemma csteps_from_init : forall mn mx acts s, mn <= mx -> csteps (cap_init mn mx) acts = Some s ->
  CapInv s /\ c_min s = mn /\ c_max s = mx.
Proof.
  intros mn mx acts s H Hs.
  exact (csteps_inv acts _ _ (cap_inv_init mn mx H) Hs).
Qed.

(* ---------- consequences of the invariant ---------- *)
Lemma nodup_app_inv : forall (A : Type) (l1 l2 : list A), NoDup (l1 ++ l2) -> NoDup l1 /\ NoDup l2.
Proof.
  induction l1 as [|x l1 IH]; intros l2 H; cbn in *.
  - split; [constructor|assumption].
  - inversion H as [|? ? Hn ND]; subst. destruct (IH _ ND) as (H1 & H2).
    split; [|assumption]. constructor; [|assumption].
    intros Hi. apply Hn. apply in_or_app. now left.
Qed.

Lemma capinv_nodup_tags : forall s, CapInv s -> NoDup (all_tags s).
Proof.
  intros s (HP & _). apply (Permutation_NoDup (Permutation_sym HP)). apply seq_NoDup.
Qed.

Lemma conservation : forall mn mx acts s, mn <= mx -> csteps (cap_init mn mx) acts = Some s ->
  Permutation (free s ++ addl s ++ map snd (infl s) ++ pend s) (seq 0 mx).
Proof.
  intros mn mx acts s H Hs. destruct (csteps_from_init _ _ _ _ H Hs) as ((HP & _) & _ & E).
  unfold all_tags in HP. now rewrite E in HP.
Qed.

Lemma capinv_infl : forall s, CapInv s ->
  length (infl s) <= c_max s /\ NoDup (map snd (infl s)) /\ NoDup (map fst (infl s)).
Proof.
  intros s HI. pose proof (capinv_nodup_tags s HI) as ND. destruct HI as (HP & _ & HN).
  split; [|split; [|assumption]].
  - apply Permutation_length in HP. unfold all_tags in HP.
    rewrite !app_length, map_length, seq_length in HP. lia.
  - unfold all_tags in ND. apply nodup_app_inv in ND. destruct ND as (_ & ND).
    apply nodup_app_inv in ND. destruct ND as (_ & ND).
    apply nodup_app_inv in ND. now destruct ND.
Qed.

Lemma at_most_max : forall mn mx acts s, mn <= mx -> csteps (cap_init mn mx) acts = Some s ->
  length (infl s) <= mx /\ NoDup (map snd (infl s)) /\ NoDup (map fst (infl s)).
Proof.
  intros mn mx acts s H Hs. destruct (csteps_from_init _ _ _ _ H Hs) as (HI & _ & E).
  rewrite <- E. now apply capinv_infl.
Qed.

Lemma get_enabled_iff : forall s q, CapInv s -> tag_of q (infl s) = None ->
  (cstep s (AGet q) <> None <-> free s ++ addl s <> []).
Proof.
  intros s q _ Hq. cbn. rewrite Hq.
  destruct (free s); [destruct (addl s)|]; cbn; split; intros H; congruence.
Qed.

Lemma release_enabled : forall s q t, CapInv s -> In (q, t) (infl s) ->
  exists s', cstep s (ADone q) = Some s'.
Proof.
  intros s q t _ Hin. cbn. destruct (in_tag_of_some _ _ _ Hin) as (t' & E). rewrite E. now eexists.
Qed.

Lemma put_enabled : forall s t, In t (pend s) -> exists s', cstep s (APut t) = Some s'.
Proof.
  intros s t Hin. cbn -[Nat.ltb]. apply existsb_eqb_in in Hin. rewrite Hin.
  destruct (Nat.ltb t (c_min s)); now eexists.
Qed.

Lemma busy_means_work_outstanding : forall s, CapInv s -> 0 < c_max s ->
  free s ++ addl s = [] -> infl s <> [] \/ pend s <> [].
Proof.
  intros s (HP & _) Hm He. apply Permutation_length in HP. unfold all_tags in HP.
  rewrite app_assoc, He in HP. cbn in HP. rewrite app_length, map_length, seq_length in HP.
  destruct (infl s); [|left; discriminate]. destruct (pend s); [|right; discriminate].
  cbn in HP. lia.
Qed.

Lemma put_makes_available : forall s t s', CapInv s -> cstep s (APut t) = Some s' ->
  free s' ++ addl s' <> [].
Proof.
  intros s t s' _ H. cbn -[Nat.ltb] in H. destruct (existsb (Nat.eqb t) (pend s)); [|discriminate].
  destruct (Nat.ltb t (c_min s)); inversion H; subst s'; cbn [free addl]; intros E.
  - apply app_eq_nil in E. destruct E as (E & _). apply app_eq_nil in E. destruct E; discriminate.
  - apply app_eq_nil in E. destruct E as (_ & E). apply app_eq_nil in E. destruct E; discriminate.
Qed.

Lemma quiescent_full : forall s, CapInv s -> infl s = [] -> pend s = [] ->
  length (free s ++ addl s) = c_max s /\ Permutation (free s ++ addl s) (seq 0 (c_max s)).
Proof.
  intros s (HP & _) Hi Hp. unfold all_tags in HP. rewrite Hi, Hp in HP. cbn in HP.
  rewrite app_nil_r in HP. split; [|assumption].
  apply Permutation_length in HP. now rewrite seq_length in HP.
Qed.

(* ---------- isolation ---------- *)
Lemma nodup_app_disj : forall (A : Type) (l1 l2 : list A) x,
  NoDup (l1 ++ l2) -> In x l1 -> In x l2 -> False.
Proof.
  induction l1 as [|y l1 IH]; intros l2 x H H1 H2; cbn in *; [tauto|].
  inversion H as [|? ? Hn ND]; subst. destruct H1 as [H1|H1].
  - subst. apply Hn. apply in_or_app. now right.
  - exact (IH l2 x ND H1 H2).
Qed.

Lemma keys_belong_to_holder : forall s t k q, CapInv s -> In (t, (k, q)) (keys s) ->
  tag_of q (infl s) = Some t.
Proof.
  intros s t k q (_ & HK & HN) Hin. apply in_tag_of; [assumption|]. now apply HK in Hin.
Qed.

Lemma nodup_snd_inj : forall (l : list (nat * nat)) q q' t,
  NoDup (map snd l) -> In (q, t) l -> In (q', t) l -> q = q'.
Proof.
  induction l as [|[a b] l IH]; intros q q' t ND H1 H2; cbn in *; [tauto|].
  inversion ND as [|? ? Hn ND']; subst.
  destruct H1 as [H1|H1], H2 as [H2|H2].
  - congruence.
  - inversion H1; subst. exfalso. apply Hn. change t with (snd (q', t)). now apply in_map.
  - inversion H2; subst. exfalso. apply Hn. change t with (snd (q, t)). now apply in_map.
  - now apply (IH q q' t).
Qed.

Lemma sees_only_own : forall s q k q', CapInv s -> In (k, q') (visible_keys s q) -> q' = q.
Proof.
  intros s q k q' HI Hin. destruct (capinv_infl s HI) as (_ & NDs & _).
  destruct HI as (_ & HK & HN). unfold visible_keys in Hin.
  destruct (tag_of q (infl s)) as [t|] eqn:Eq; [|destruct Hin].
  apply in_map_iff in Hin. destruct Hin as ([t' [k' q'']] & E & Hin). cbn in E. inversion E; subst.
  apply filter_In in Hin. destruct Hin as (Hin & Et). cbn in Et. apply Nat.eqb_eq in Et. subst t'.
  apply HK in Hin. apply tag_of_in in Eq. now apply (nodup_snd_inj (infl s) q' q t).
Qed.

Lemma nothing_left_after_return : forall s q s', CapInv s -> cstep s (ADone q) = Some s' ->
  forall t k, ~ In (t, (k, q)) (keys s').
Proof.
  intros s q s' _ H t k Hin. cbn in H. destruct (tag_of q (infl s)); [|discriminate].
  inversion H; subst s'. cbn [keys] in Hin. apply filter_In in Hin. destruct Hin as (_ & E).
  cbn in E. now rewrite Nat.eqb_refl in E.
Qed.

Lemma idle_clean : forall s t, CapInv s -> In t (free s ++ addl s ++ pend s) ->
  forall k q, ~ In (t, (k, q)) (keys s).
Proof.
  intros s t HI Hin k q Hk. pose proof (capinv_nodup_tags s HI) as ND.
  destruct HI as (_ & HK & _). apply HK in Hk.
  assert (Hm : In t (map snd (infl s))) by (change t with (snd (q, t)); now apply in_map).
  unfold all_tags in ND.
  apply in_app_or in Hin. destruct Hin as [Hin|Hin].
  { apply (nodup_app_disj _ _ _ t ND Hin). apply in_or_app. right. apply in_or_app. now left. }
  apply nodup_app_inv in ND. destruct ND as (_ & ND).
  apply in_app_or in Hin. destruct Hin as [Hin|Hin].
  { apply (nodup_app_disj _ _ _ t ND Hin). apply in_or_app. now left. }
  apply nodup_app_inv in ND. destruct ND as (_ & ND).
  exact (nodup_app_disj _ _ _ t ND Hm Hin).
Qed.

Lemma fresh_get_sees_nothing : forall s q2 s2, CapInv s -> cstep s (AGet q2) = Some s2 ->
  visible_keys s2 q2 = [].
Proof.
  intros s q2 s2 HI H. pose proof (idle_clean s) as IC. cbn in H.
  destruct (tag_of q2 (infl s)); [discriminate|].
  assert (G : forall t, In t (free s ++ addl s ++ pend s) ->
              map snd (filter (fun e : nat * (string * nat) => Nat.eqb (fst e) t) (keys s)) = []).
  { intros t Hin. destruct (filter _ (keys s)) as [|[t' [k q]] l] eqn:Ef; [reflexivity|].
    exfalso. assert (Hi : In (t', (k, q)) (filter (fun e : nat * (string * nat) => Nat.eqb (fst e) t) (keys s)))
      by (rewrite Ef; now left).
    apply filter_In in Hi. destruct Hi as (Hi & E). cbn in E. apply Nat.eqb_eq in E. subst t'.
    exact (IC t HI Hin k q Hi). }
  destruct (free s) as [|t f'] eqn:Ef.
  - destruct (addl s) as [|t a'] eqn:Ea; [discriminate|].
    inversion H; subst s2. unfold visible_keys. cbn [infl keys tag_of]. rewrite Nat.eqb_refl.
    apply G. now left.
  - inversion H; subst s2. unfold visible_keys. cbn [infl keys tag_of]. rewrite Nat.eqb_refl.
    apply G. now left.
Qed.

(* ---------- non-vacuity ---------- *)
Section CapExample.
  Local Open Scope string_scope.
  Let acts : list cact :=
    [AGet 7; AInject 7 ["Req"]; AGet 8; AInject 8 ["Req"]; ADone 7; APut 0; AGet 9].

  Example cap_example :
    exists s, csteps (cap_init 1 2) acts = Some s /\
              map fst (infl s) = [9; 8] /\ visible_keys s 9 = [] /\
              visible_keys s 8 = [("Req", 8)].
  Proof. eexists. split; [vm_compute; reflexivity|]. repeat split. Qed.

  Example cap_example_busy :
    exists s, csteps (cap_init 1 2) [AGet 7; AGet 8] = Some s /\ cstep s (AGet 9) = None.
  Proof. eexists. split; [vm_compute; reflexivity|]. reflexivity. Qed.
End CapExample.

(* ================================================================== *)
(* (3) hot updates: versions seen by executions                         *)
(* ================================================================== *)
Definition installs (h : list hev) : list nat :=
  flat_map (fun e => match e with HInstall v => [v] | _ => [] end) h.

Definition wf_hist (v0 : nat) (h : list hev) : Prop :=
  NoDup h /\
  StronglySorted lt (v0 :: installs h) /\
  (forall v, In (HInstall v) h ->
     before (HUpdBegin v) (HInstall v) h /\ before (HInstall v) (HUpdEnd v) h) /\
  (forall q, In (HSnap q) h ->
     before (HExecBegin q) (HSnap q) h /\ before (HSnap q) (HExecEnd q) h).

Lemma hev_eq_dec : forall a b : hev, {a = b} + {a <> b}.
Proof. decide equality; apply Nat.eq_dec. Qed.

Lemma is_ev_true : forall a b, is_ev a b = true <-> a = b.
Proof.
  intros a b. destruct a, b; cbn; split; intros H; try discriminate;
    try (apply Nat.eqb_eq in H; now subst); try (inversion H; subst; apply Nat.eqb_refl).
Qed.

Lemma is_ev_false : forall a b, a <> b -> is_ev a b = false.
Proof.
  intros a b H. destruct (is_ev a b) eqn:E; [|reflexivity]. apply is_ev_true in E. contradiction.
Qed.

Lemma installs_app : forall h1 h2, installs (h1 ++ h2) = installs h1 ++ installs h2.
Proof. intros. unfold installs. apply flat_map_app. Qed.

Lemma installs_in : forall v h, In v (installs h) <-> In (HInstall v) h.
Proof.
  intros v h. unfold installs. rewrite in_flat_map. split.
  - intros (e & He & Hv). destruct e; cbn in Hv; try tauto. destruct Hv as [Hv|[]]. now subst.
  - intros H. exists (HInstall v). split; [assumption|now left].
Qed.

(* ---------- positions ---------- *)
Lemma index_of_shift : forall e h i,
  index_of e h i = option_map (fun j => i + j) (index_of e h 0).
Proof.
  induction h as [|x h IH]; intros i; cbn; [reflexivity|].
  destruct (e x); cbn; [f_equal; lia|].
  rewrite (IH (S i)), (IH 1). destruct (index_of e h 0); cbn; [f_equal; lia|reflexivity].
Qed.

Lemma pos_of_app_in : forall a h1 h2, In a h1 ->
  exists i, pos_of a (h1 ++ h2) = Some i /\ i < length h1.
Proof.
  unfold pos_of. induction h1 as [|x h1 IH]; intros h2 H; cbn in *; [tauto|].
  destruct (is_ev a x) eqn:E; [exists 0; split; [reflexivity|lia]|].
  destruct H as [H|H]; [subst x; rewrite (proj2 (is_ev_true a a) eq_refl) in E; discriminate|].
  destruct (IH h2 H) as (i & Hi & Hl). rewrite index_of_shift, Hi. cbn.
  exists (S i). split; [reflexivity|lia].
Qed.

Lemma pos_of_app_notin : forall a h1 h2, ~ In a h1 ->
  pos_of a (h1 ++ h2) = option_map (fun j => length h1 + j) (pos_of a h2).
Proof.
  unfold pos_of. induction h1 as [|x h1 IH]; intros h2 H; cbn in *.
  - destruct (index_of (is_ev a) h2 0); reflexivity.
  - rewrite is_ev_false by (intros E; apply H; now left).
    rewrite index_of_shift, IH by tauto.
    destruct (index_of (is_ev a) h2 0); reflexivity.
Qed.

Lemma pos_of_head : forall a h, pos_of a (a :: h) = Some 0.
Proof. intros. unfold pos_of. cbn. now rewrite (proj2 (is_ev_true a a) eq_refl). Qed.

Lemma pos_of_split : forall a h1 h2, ~ In a h1 -> pos_of a (h1 ++ a :: h2) = Some (length h1).
Proof.
  intros a h1 h2 H. rewrite pos_of_app_notin by assumption. rewrite pos_of_head. cbn. f_equal. lia.
Qed.

Lemma pos_of_some_in : forall a h i, pos_of a h = Some i -> In a h.
Proof.
  unfold pos_of. induction h as [|x h IH]; intros i H; cbn in *; [discriminate|].
  destruct (is_ev a x) eqn:E; [left; symmetry; now apply is_ev_true|].
  right. rewrite index_of_shift in H. destruct (index_of (is_ev a) h 0) eqn:E2; [|discriminate].
  now apply (IH n).
Qed.

(* relative to the first occurrence of a, an event b is before it iff it occurs in the prefix *)
Lemma before_split_l : forall a b h1 h2, ~ In a h1 ->
  before b a (h1 ++ a :: h2) -> In b h1.
Proof.
  intros a b h1 h2 Ha Hb. unfold before in Hb. rewrite (pos_of_split a h1 h2 Ha) in Hb.
  destruct (in_dec hev_eq_dec b h1) as [Hi|Hn]; [assumption|exfalso].
  rewrite (pos_of_app_notin b h1 _ Hn) in Hb.
  destruct (pos_of b (a :: h2)); cbn in Hb; [lia|assumption].
Qed.

Lemma before_split_r : forall a b h1 h2, ~ In a h1 ->
  before a b (h1 ++ a :: h2) -> ~ In b h1 /\ In b h2.
Proof.
  intros a b h1 h2 Ha Hb. unfold before in Hb. rewrite (pos_of_split a h1 h2 Ha) in Hb.
  destruct (in_dec hev_eq_dec b h1) as [Hi|Hn].
  - exfalso. destruct (pos_of_app_in b h1 (a :: h2) Hi) as (i & Hi' & Hl). rewrite Hi' in Hb. lia.
  - split; [assumption|]. rewrite (pos_of_app_notin b h1 _ Hn) in Hb.
    destruct (pos_of b (a :: h2)) as [j|] eqn:E; cbn in Hb; [|tauto].
    pose proof (pos_of_some_in _ _ _ E) as E'. destruct E' as [E'|E']; [|assumption].
    subst b. rewrite pos_of_head in E. inversion E; subst j. lia.
Qed.

Lemma before_trans : forall a b c h, before a b h -> before b c h -> before a c h.
Proof.
  unfold before. intros a b c h H1 H2.
  destruct (pos_of a h), (pos_of b h), (pos_of c h); try tauto. lia.
Qed.

(* ---------- the version an execution observes ---------- *)
Lemma last_cons_default : forall (l : list nat) a b, last (a :: l) b = last l a.
Proof.
  induction l as [|c l IH]; intros a b; [reflexivity|].
  change (last (a :: c :: l) b) with (last (c :: l) b). now rewrite (IH c b), (IH c a).
Qed.

Lemma version_at_split : forall h cur q w, version_at h cur q = Some w ->
  exists h1 h2, h = h1 ++ HSnap q :: h2 /\ ~ In (HSnap q) h1 /\ w = last (installs h1) cur.
Proof.
  induction h as [|e h IH]; intros cur q w H; cbn in H; [discriminate|].
  assert (G : forall cur', version_at h cur' q = Some w -> e <> HSnap q ->
              cur' = last (installs [e]) cur ->
              exists h1 h2, e :: h = h1 ++ HSnap q :: h2 /\ ~ In (HSnap q) h1 /\
                            w = last (installs h1) cur).
  { intros cur' Hv Hne Hl. destruct (IH cur' q w Hv) as (h1 & h2 & E & Hn & Hw).
    exists (e :: h1), h2. split; [now rewrite E|]. split.
    - intros [Hi|Hi]; [now apply Hne|now apply Hn].
    - subst w. change (e :: h1) with ([e] ++ h1). rewrite installs_app.
      subst cur'. destruct e; try reflexivity.
      exact (eq_sym (last_cons_default (installs h1) v cur)). }
  destruct e as [v|v|v|q'|q'|q'];
    try (apply (G cur H); [discriminate|reflexivity]).
  - apply (G v H); [discriminate|reflexivity].
  - destruct (Nat.eqb q q') eqn:E.
    + apply Nat.eqb_eq in E. subst q'. inversion H; subst w.
      exists [], h. split; [reflexivity|]. split; [intros []|reflexivity].
    + apply Nat.eqb_neq in E. apply (G cur H); [congruence|reflexivity].
Qed.

Lemma one_version : forall h cur q, In (HSnap q) h ->
  exists w, version_at h cur q = Some w /\ (w = cur \/ In w (installs h)).
Proof.
  induction h as [|e h IH]; intros cur q Hin; [destruct Hin|].
  assert (G : e <> HSnap q -> forall cur', (cur' = cur \/ In cur' (installs [e])) ->
              exists w, version_at h cur' q = Some w /\ (w = cur \/ In w (installs (e :: h)))).
  { intros Hne cur' Hc. destruct Hin as [Hin|Hin]; [congruence|].
    destruct (IH cur' q Hin) as (w & Hw & Hor). exists w. split; [assumption|].
    change (e :: h) with ([e] ++ h). rewrite installs_app.
    destruct Hor as [Hor|Hor]; [subst w|right; apply in_or_app; now right].
    destruct Hc as [Hc|Hc]; [now left|right; apply in_or_app; now left]. }
  destruct e as [v|v|v|q'|q'|q']; cbn [version_at];
    try (apply G; [discriminate|now left]).
  - apply G; [discriminate|right; now left].
  - destruct (Nat.eqb q q') eqn:E.
    + exists cur. split; [reflexivity|now left].
    + apply Nat.eqb_neq in E. apply G; [congruence|now left].
Qed.

(* ---------- sortedness ---------- *)
Lemma ssorted_app_inv : forall l1 l2, StronglySorted lt (l1 ++ l2) ->
  StronglySorted lt l1 /\ StronglySorted lt l2 /\ (forall x y, In x l1 -> In y l2 -> x < y).
Proof.
  induction l1 as [|a l1 IH]; intros l2 H; cbn in *.
  - split; [constructor|]. split; [assumption|]. intros x y [].
  - apply StronglySorted_inv in H. destruct H as (H & Hf).
    destruct (IH l2 H) as (S1 & S2 & Hlt). rewrite Forall_forall in Hf.
    split; [|split; [assumption|]].
    + constructor; [assumption|]. apply Forall_forall. intros x Hx. apply Hf. apply in_or_app. now left.
    + intros x y [Hx|Hx] Hy; [subst x; apply Hf; apply in_or_app; now right|now apply Hlt].
Qed.

Lemma ssorted_last_max : forall l a, StronglySorted lt (a :: l) ->
  forall x, In x (a :: l) -> x <= last l a.
Proof.
  induction l as [|b l IH]; intros a H x Hx.
  - destruct Hx as [Hx|[]]. subst. cbn. lia.
  - apply StronglySorted_inv in H. destruct H as (H & Hf).
    rewrite last_cons_default. destruct Hx as [Hx|Hx].
    + subst x. inversion Hf as [|? ? Hab _]; subst.
      specialize (IH b H b (or_introl eq_refl)). lia.
    + now apply IH.
Qed.

Lemma last_in_cons : forall (l : list nat) a, In (last l a) (a :: l).
Proof.
  induction l as [|b l IH]; intros a; [now left|].
  right. rewrite last_cons_default. apply IH.
Qed.

(* ---------- the three properties ---------- *)
Lemma updates_visible : forall v0 h q v w, wf_hist v0 h -> In (HInstall v) h ->
  before (HUpdEnd v) (HExecBegin q) h -> version_at h v0 q = Some w -> v <= w.
Proof.
  intros v0 h q v w (_ & HS & HI & HQ) Hin Hb Hv.
  destruct (version_at_split h v0 q w Hv) as (h1 & h2 & E & Hn & Hw).
  assert (Hsn : In (HSnap q) h) by (rewrite E; apply in_or_app; right; now left).
  destruct (HI v Hin) as (_ & B1). destruct (HQ q Hsn) as (B2 & _).
  pose proof (before_trans _ _ _ _ B1 (before_trans _ _ _ _ Hb B2)) as B.
  rewrite E in B. apply before_split_l in B; [|assumption].
  apply installs_in in B.
  rewrite E, installs_app in HS. rewrite app_comm_cons in HS.
  apply ssorted_app_inv in HS. destruct HS as (HS1 & _ & _).
  subst w. apply (ssorted_last_max _ _ HS1). now right.
Qed.

Lemma no_future_version : forall v0 h q v w, wf_hist v0 h -> In (HInstall v) h ->
  before (HExecEnd q) (HUpdBegin v) h -> version_at h v0 q = Some w -> w < v.
Proof.
  intros v0 h q v w (_ & HS & HI & HQ) Hin Hb Hv.
  destruct (version_at_split h v0 q w Hv) as (h1 & h2 & E & Hn & Hw).
  assert (Hsn : In (HSnap q) h) by (rewrite E; apply in_or_app; right; now left).
  destruct (HI v Hin) as (B1 & _). destruct (HQ q Hsn) as (_ & B2).
  pose proof (before_trans _ _ _ _ B2 (before_trans _ _ _ _ Hb B1)) as B.
  rewrite E in B. apply before_split_r in B; [|assumption]. destruct B as (_ & B).
  apply installs_in in B.
  rewrite E, installs_app in HS. rewrite app_comm_cons in HS. cbn [installs flat_map] in HS.
  apply ssorted_app_inv in HS. destruct HS as (_ & _ & Hlt).
  apply Hlt; [subst w; apply last_in_cons|exact B].
Qed.

(* ---------- non-vacuity ---------- *)
Definition hist_example : list hev :=
  [HExecBegin 1; HUpdBegin 5; HSnap 1; HInstall 5; HUpdEnd 5; HExecBegin 2; HSnap 2;
   HExecEnd 1; HExecEnd 2].

Example hist_example_ok :
  wf_hist 3 hist_example /\
  version_at hist_example 3 1 = Some 3 /\ version_at hist_example 3 2 = Some 5.
Proof.
  split; [|split; reflexivity].
  unfold wf_hist, hist_example. split; [|split; [|split]].
  - repeat (constructor; [cbn; intuition discriminate|]). constructor.
  - cbn. repeat constructor.
  - intros v Hin. cbn in Hin.
    repeat (destruct Hin as [Hin|Hin]; [try discriminate|]); [|destruct Hin].
    inversion Hin; subst. unfold before. vm_compute. lia.
  - intros q Hin. cbn in Hin.
    repeat (destruct Hin as [Hin|Hin]; [try discriminate|]); [| |destruct Hin];
      inversion Hin; subst; unfold before; vm_compute; lia.
Qed.

(* ================================================================== *)
(* (2) management operations and queries                                *)
(* ================================================================== *)
Definition MInv (s : mgmt) : Prop :=
  Inv (m_master s) /\ Forall Inv (m_insts s) /\
  Forall (fun ki => forall n, abs ki n = abs (m_master s) n) (m_insts s).

(* the state [s] holds what the triple [d] denotes *)
Definition MRel (s : mgmt) (d : ruleset * bool * nat) : Prop :=
  MInv s /\ (forall n, abs (m_master s) n = fst (fst d) n) /\
  m_clear s = snd (fst d) /\ m_model s = snd d.

Lemma forall_map_const : forall (P : kc -> Prop) k (l : list kc),
  P k -> Forall P (map (fun _ : kc => k) l).
Proof.
  intros P k l H. apply Forall_forall. intros x Hx. apply in_map_iff in Hx.
  destruct Hx as (y & E & _). now subst.
Qed.

Lemma minv_const : forall k (l : list kc) c m, Inv k -> MInv (mkMgmt k (map (fun _ : kc => k) l) c m).
Proof.
  intros k l c m H. unfold MInv. cbn [m_master m_insts].
  split; [assumption|]. split; apply forall_map_const; [assumption|reflexivity].
Qed.

Section MgmtProofs.
  Variable shuffle : nat -> list rule -> list rule.
  Hypothesis shuffle_perm : forall n l, Permutation (shuffle n l) l.

  Lemma minv_init : forall mx model rs, MInv (mgmt_init mx model rs shuffle).
  Proof.
    intros mx model rs. unfold mgmt_init, MInv. cbn [m_master m_insts].
    assert (HI : Inv (step shuffle kc_empty (Full 0 rs)))
      by (apply (step_inv shuffle shuffle_perm); exact inv_empty).
    split; [assumption|].
    split; apply Forall_forall; intros x Hx; apply repeat_spec in Hx; subst x;
      [assumption|reflexivity].
  Qed.

  Lemma minv_step : forall s o, MInv s -> MInv (mstep shuffle s o).
  Proof.
    intros s o HS. pose proof HS as (HM & HF & HA). destruct o as [seed rs|seed rs|seed ns| |m|b]; cbn [mstep].
    - destruct (compiles rs); [|exact HS].
      apply minv_const. apply (step_inv shuffle shuffle_perm). exact inv_empty.
    - destruct (compiles rs); [|exact HS].
      apply minv_const. now apply (step_inv shuffle shuffle_perm).
    - destruct ns as [|n0 ns]; [exact HS|].
      unfold MInv. cbn [m_master m_insts]. rewrite Forall_forall in HF, HA.
      split; [now apply (step_inv shuffle shuffle_perm)|].
      split; apply Forall_forall; intros x Hx; apply in_map_iff in Hx;
        destruct Hx as (ki & E & Hin); subst x.
      + apply (step_inv shuffle shuffle_perm). now apply HF.
      + intros n. rewrite (step_abs shuffle shuffle_perm ki _ (HF ki Hin) n).
        rewrite (step_abs shuffle shuffle_perm (m_master s) _ HM n).
        cbn [apply_op]. now rewrite (HA ki Hin n).
    - apply minv_const. exact inv_empty.
    - destruct (valid_model m); exact HS.
    - exact HS.
  Qed.

  Lemma mstep_length : forall s o, length (m_insts (mstep shuffle s o)) = length (m_insts s).
  Proof.
    intros s o. destruct o as [seed rs|seed rs|seed ns| |m|b]; cbn [mstep].
    - destruct (compiles rs); [cbn; apply map_length|reflexivity].
    - destruct (compiles rs); [cbn; apply map_length|reflexivity].
    - destruct ns; [reflexivity|cbn; apply map_length].
    - cbn; apply map_length.
    - destruct (valid_model m); reflexivity.
    - reflexivity.
  Qed.

  Lemma mrel_step : forall s d o, MRel s d -> MRel (mstep shuffle s o) (mdenote_step d o).
  Proof.
    intros s [[den cl] m] o HR. pose proof HR as (HI & HA & HC & HMo). cbn [fst snd] in *.
    pose proof (minv_step s o HI) as HI'. destruct HI as (HM & _).
    unfold MRel. split; [exact HI'|clear HI'].
    destruct o as [seed rs|seed rs|seed ns| |m'|b]; cbn [mstep mdenote_step to_op fst snd].
    - destruct (compiles rs) eqn:Hc; cbn [m_master m_clear m_model fst snd].
      + split; [|now split]. intros n.
        rewrite (step_abs shuffle shuffle_perm kc_empty _ inv_empty n).
        cbn [apply_op]. now rewrite Hc.
      + split; [|now split]. intros n. cbn [apply_op]. rewrite Hc. apply HA.
    - destruct (compiles rs) eqn:Hc; cbn [m_master m_clear m_model fst snd].
      + split; [|now split]. intros n.
        rewrite (step_abs shuffle shuffle_perm (m_master s) _ HM n).
        now apply apply_op_ext.
      + split; [|now split]. intros n. cbn [apply_op]. rewrite Hc. apply HA.
    - destruct ns as [|n0 ns]; cbn [m_master m_clear m_model fst snd].
      + split; [|now split]. intros n. cbn. apply HA.
      + split; [|now split]. intros n.
        rewrite (step_abs shuffle shuffle_perm (m_master s) _ HM n).
        now apply apply_op_ext.
    - cbn [m_master m_clear m_model]. repeat split; assumption.
    - destruct (valid_model m'); cbn [m_master m_clear m_model fst snd]; repeat split; assumption.
    - cbn [apply_op]. repeat split; assumption.
  Qed.

  Lemma mrel_run : forall ops s d, MRel s d ->
    MRel (mrun shuffle s ops) (fold_left mdenote_step ops d) /\
    length (m_insts (mrun shuffle s ops)) = length (m_insts s).
  Proof.
    unfold mrun. induction ops as [|o ops IH]; intros s d HR; cbn [fold_left].
    - now split.
    - destruct (IH _ _ (mrel_step s d o HR)) as (H1 & H2).
      split; [assumption|]. rewrite H2. apply mstep_length.
  Qed.

  Lemma mrel_init : forall mx model rs, compiles rs = true ->
    MRel (mgmt_init mx model rs shuffle) (rs_of_list rs, false, model).
  Proof.
    intros mx model rs Hc. unfold MRel. split; [apply minv_init|].
    unfold mgmt_init. cbn [m_master m_clear m_model fst snd]. split; [|now split].
    intros n. rewrite (step_abs shuffle shuffle_perm kc_empty _ inv_empty n).
    cbn [apply_op]. now rewrite Hc.
  Qed.

  Lemma mrel_reach : forall mx model rs ops, compiles rs = true ->
    MRel (mrun shuffle (mgmt_init mx model rs shuffle) ops)
         (fold_left mdenote_step ops (rs_of_list rs, false, model)) /\
    length (m_insts (mrun shuffle (mgmt_init mx model rs shuffle) ops)) = mx.
  Proof.
    intros mx model rs ops Hc.
    destruct (mrel_run ops _ _ (mrel_init mx model rs Hc)) as (H1 & H2).
    split; [assumption|]. rewrite H2. unfold mgmt_init. cbn [m_insts]. apply repeat_length.
  Qed.

  Lemma mgmt_agree : forall mx model rs ops, compiles rs = true ->
    let s := mrun shuffle (mgmt_init mx model rs shuffle) ops in
    let '(den, cl, m) := fold_left mdenote_step ops (rs_of_list rs, false, model) in
    (forall n, abs (m_master s) n = den n) /\
    Forall (fun ki => forall n, abs ki n = den n) (m_insts s) /\
    Forall Inv (m_insts s) /\ m_clear s = cl /\ m_model s = m /\ length (m_insts s) = mx.
  Proof.
    intros mx model rs ops Hc s. destruct (mrel_reach mx model rs ops Hc) as (HR & HL).
    fold s in HR, HL.
    destruct (fold_left mdenote_step ops (rs_of_list rs, false, model)) as [[den cl] m].
    destruct HR as ((HM & HF & HA) & HD & HC & HMo). cbn [fst snd] in *.
    repeat split; try assumption.
    rewrite Forall_forall in *. intros ki Hin n. rewrite (HA ki Hin n). apply HD.
  Qed.

  Lemma mgmt_master_inv : forall mx model rs ops, compiles rs = true ->
    Inv (m_master (mrun shuffle (mgmt_init mx model rs shuffle) ops)).
  Proof.
    intros mx model rs ops Hc. destruct (mrel_reach mx model rs ops Hc) as (((HM & _) & _) & _).
    exact HM.
  Qed.

  Lemma mgmt_queries : forall mx model rs ops, compiles rs = true ->
    let s := mrun shuffle (mgmt_init mx model rs shuffle) ops in
    let '(den, cl, m) := fold_left mdenote_step ops (rs_of_list rs, false, model) in
    (forall n,
       q_exist s n = (negb cl && match den n with Some _ => true | None => false end)%bool /\
       q_salience s n = (if cl then None else option_map rsal (den n)) /\
       q_desc s n = (if cl then None else option_map rdesc (den n))) /\
    q_number s = (if cl then 0 else length (ents (m_master s))) /\
    NoDup (map fst (ents (m_master s))).
  Proof.
    intros mx model rs ops Hc s. destruct (mrel_reach mx model rs ops Hc) as (HR & _).
    fold s in HR.
    destruct (fold_left mdenote_step ops (rs_of_list rs, false, model)) as [[den cl] m].
    destruct HR as ((HM & _) & HD & HC & _). cbn [fst snd] in *.
    split; [|split].
    - intros n. unfold q_exist, q_salience, q_desc, is_exist. rewrite HC.
      specialize (HD n). unfold abs in HD. rewrite HD.
      destruct cl; cbn; [now repeat split|]. destruct (den n); now repeat split.
    - unfold q_number. now rewrite HC.
    - now destruct HM.
  Qed.

  Lemma clear_then_incr : forall s seed rs, compiles rs = true ->
    m_clear (mstep shuffle (mstep shuffle s MClear) (MIncr seed rs)) = false /\
    (forall n, abs (m_master (mstep shuffle (mstep shuffle s MClear) (MIncr seed rs))) n
               = rs_of_list rs n).
  Proof.
    intros s seed rs Hc. cbn [mstep m_master m_insts m_clear m_model]. rewrite Hc.
    cbn [m_master m_clear]. split; [reflexivity|]. intros n.
    rewrite (step_abs shuffle shuffle_perm kc_empty _ inv_empty n).
    cbn [apply_op]. rewrite Hc. unfold abs. cbn. now destruct (rs_of_list rs n).
  Qed.

  Lemma clear_then_update : forall s seed rs, compiles rs = true ->
    m_clear (mstep shuffle (mstep shuffle s MClear) (MUpdate seed rs)) = false /\
    (forall n, abs (m_master (mstep shuffle (mstep shuffle s MClear) (MUpdate seed rs))) n
               = rs_of_list rs n).
  Proof.
    intros s seed rs Hc. cbn [mstep m_master m_insts m_clear m_model]. rewrite Hc.
    cbn [m_master m_clear]. split; [reflexivity|]. intros n.
    rewrite (step_abs shuffle shuffle_perm kc_empty _ inv_empty n).
    cbn [apply_op]. now rewrite Hc.
  Qed.
End MgmtProofs.

Lemma failed_op_unchanged : forall shuffle s o, mstep_err s o = true -> mstep shuffle s o = s.
Proof.
  intros shuffle s o H. destruct o as [seed rs|seed rs|seed ns| |m|b]; cbn in *.
  - apply negb_true_iff in H. now rewrite H.
  - apply negb_true_iff in H. now rewrite H.
  - destruct ns; [reflexivity|discriminate].
  - discriminate.
  - apply negb_true_iff in H. now rewrite H.
  - reflexivity.
Qed.

(* ---------- non-vacuity ---------- *)
Section MgmtExample.
  Local Open Scope string_scope.
  Local Open Scope Z_scope.
  Let idsh : nat -> list rule -> list rule := fun _ l => l.
  Let ra := mkRule "a" 10 "rule a" 1.
  Let rb := mkRule "b" 5 "rule b" 2.
  Let rc := mkRule "c" 7 "rule c" 3.

  Example mgmt_example :
    let s := mrun idsh (mgmt_init 2 1%nat [ra; rb] idsh)
                  [MIncr 1 [rc]; MBadText true; MRemove 2 ["a"]; MSetModel 3; MSetModel 9] in
    map rname (sorted (m_master s)) = ["c"; "b"] /\
    map (fun k => map rname (sorted k)) (m_insts s) = [["c"; "b"]; ["c"; "b"]] /\
    q_exist s "a" = false /\ q_exist s "c" = true /\ q_number s = 2%nat /\
    q_salience s "c" = Some 7 /\ m_model s = 3%nat /\
    q_number (mstep idsh s MClear) = 0%nat.
  Proof. vm_compute. repeat split. Qed.
End MgmtExample.
