(* Rules/KcProofs.v — proofs about the executable model in KcModel.v *)
From Coq Require Import String List ZArith Bool Lia Permutation ZifyBool.
From GV Require Import Rules.KcModel.
Import ListNotations.
Local Open Scope Z_scope.

Ltac Zify.zify_post_hook ::= Z.div_mod_to_equations.

(* ------------------------------------------------------------------ *)
(* association lists                                                    *)
(* ------------------------------------------------------------------ *)
Section AssocFacts.
  Context {V : Type}.

  Lemma alookup_aset : forall n m (v : V) es,
    alookup n (aset m v es) = if String.eqb m n then Some v else alookup n es.
  Proof.
    intros n m v es. induction es as [|[k w] es IH]; cbn.
    - reflexivity.
    - destruct (String.eqb k m) eqn:Ekm; cbn.
      + apply String.eqb_eq in Ekm. subst k. destruct (String.eqb m n); reflexivity.
      + rewrite IH. destruct (String.eqb k n) eqn:Ekn; [|reflexivity].
        apply String.eqb_eq in Ekn. subst k.
        destruct (String.eqb m n) eqn:Emn; [|reflexivity].
        apply String.eqb_eq in Emn. subst m. rewrite String.eqb_refl in Ekm. discriminate.
  Qed.

  Lemma alookup_in : forall n (r : V) es, alookup n es = Some r -> In (n, r) es.
  Proof.
    intros n r es. induction es as [|[k w] es IH]; cbn; intros H.
    - discriminate.
    - destruct (String.eqb k n) eqn:Ekn.
      + apply String.eqb_eq in Ekn. inversion H. subst. now left.
      + right. now apply IH.
  Qed.

  Lemma alookup_none : forall n (es : list (string * V)),
    alookup n es = None <-> ~ In n (map fst es).
  Proof.
    intros n es. induction es as [|[k w] es IH]; cbn.
    - split; [intros _ []|reflexivity].
    - destruct (String.eqb k n) eqn:Ekn.
      + apply String.eqb_eq in Ekn. subst. split; [discriminate|]. intros H. exfalso. apply H. now left.
      + apply String.eqb_neq in Ekn. rewrite IH. split.
        * intros H [E|HI]; [now apply Ekn|now apply H].
        * intros H HI. apply H. now right.
  Qed.

  Lemma in_alookup : forall n (r : V) es,
    NoDup (map fst es) -> In (n, r) es -> alookup n es = Some r.
  Proof.
    intros n r es. induction es as [|[k w] es IH]; cbn; intros ND HI.
    - destruct HI.
    - inversion ND as [|x xs Hnotin ND']. subst.
      destruct HI as [E|HI].
      + inversion E. subst. now rewrite String.eqb_refl.
      + destruct (String.eqb k n) eqn:Ekn.
        * apply String.eqb_eq in Ekn. subst. exfalso. apply Hnotin.
          apply in_map_iff. exists (n, r). split; [reflexivity|assumption].
        * now apply IH.
  Qed.

  Lemma in_alookup_some : forall n (r : V) es,
    In (n, r) es -> exists r', alookup n es = Some r'.
  Proof.
    intros n r es HI. destruct (alookup n es) eqn:E.
    - eauto.
    - apply alookup_none in E. exfalso. apply E. apply in_map_iff. exists (n, r). split; [reflexivity|assumption].
  Qed.

  Lemma alookup_split : forall n (vm : V) es,
    alookup n es = Some vm ->
    exists es1 es2, es = es1 ++ (n, vm) :: es2 /\
                    forall v, aset n v es = es1 ++ (n, v) :: es2.
  Proof.
    intros n vm es. induction es as [|[k w] es IH]; cbn; intros H.
    - discriminate.
    - destruct (String.eqb k n) eqn:Ekn.
      + apply String.eqb_eq in Ekn. inversion H. subst.
        exists [], es. split; reflexivity.
      + destruct (IH H) as (es1 & es2 & E1 & E2).
        exists ((k, w) :: es1), es2. split.
        * cbn. now rewrite E1.
        * intros v. cbn. now rewrite E2.
  Qed.

  Lemma aset_none : forall n (v : V) es,
    alookup n es = None -> aset n v es = es ++ [(n, v)].
  Proof.
    intros n v es. induction es as [|[k w] es IH]; cbn; intros H.
    - reflexivity.
    - destruct (String.eqb k n) eqn:Ekn; [discriminate|]. now rewrite IH.
  Qed.
End AssocFacts.

Lemma memb_In : forall n l, memb n l = true <-> In n l.
Proof.
  intros n l. induction l as [|x l IH]; cbn.
  - split; [discriminate|intros []].
  - rewrite orb_true_iff, IH, String.eqb_eq. reflexivity.
Qed.

Lemma nodupb_NoDup : forall l, nodupb l = true -> NoDup l.
Proof.
  induction l as [|x l IH]; cbn; intros H.
  - constructor.
  - apply andb_true_iff in H. destruct H as [H1 H2]. constructor.
    + intros HI. apply memb_In in HI. rewrite HI in H1. discriminate.
    + now apply IH.
Qed.

Lemma compiles_NoDup : forall rs, compiles rs = true -> NoDup (map rname rs).
Proof.
  intros rs H. unfold compiles in H. destruct rs as [|r rs]; [discriminate|].
  now apply nodupb_NoDup.
Qed.

(* ------------------------------------------------------------------ *)
(* sortedness                                                           *)
(* ------------------------------------------------------------------ *)
Lemma sorted_descb_spec : forall l, sorted_descb l = true <-> sorted_desc l.
Proof.
  induction l as [|x l IH]; cbn.
  - split; auto.
  - rewrite andb_true_iff, forallb_forall, IH. split.
    + intros [H1 H2]. split; [|assumption]. intros y Hy. apply Z.leb_le. now apply H1.
    + intros [H1 H2]. split; [|assumption]. intros y Hy. apply Z.leb_le. now apply H1.
Qed.

Lemma sorted_app : forall a b,
  sorted_desc (a ++ b) <->
  sorted_desc a /\ sorted_desc b /\ (forall x y, In x a -> In y b -> rsal y <= rsal x).
Proof.
  induction a as [|h a IH]; intros b; cbn.
  - split.
    + intros H. repeat split; auto. intros x y [].
    + intros (_ & H & _). exact H.
  - rewrite IH. split.
    + intros (H1 & H2 & H3 & H4). repeat split; auto.
      * intros y Hy. apply H1. apply in_or_app. now left.
      * intros x y [E|Hx] Hy.
        -- subst. apply H1. apply in_or_app. now right.
        -- now apply H4.
    + intros ((H1 & H2) & H3 & H4). repeat split; auto.
      intros y Hy. apply in_app_or in Hy. destruct Hy as [Hy|Hy].
      * now apply H1.
      * apply H4; [now left|assumption].
Qed.

Lemma insert_desc_perm : forall r l, Permutation (insert_desc r l) (r :: l).
Proof.
  intros r l. induction l as [|x l IH]; cbn.
  - apply Permutation_refl.
  - destruct (Z.ltb (rsal x) (rsal r)).
    + apply Permutation_refl.
    + eapply perm_trans; [apply perm_skip, IH|apply perm_swap].
Qed.

Lemma insert_desc_sorted : forall r l, sorted_desc l -> sorted_desc (insert_desc r l).
Proof.
  intros r l. induction l as [|x l IH]; cbn; intros H.
  - split; [intros y []|exact I].
  - destruct H as [H1 H2]. destruct (Z.ltb (rsal x) (rsal r)) eqn:E; cbn.
    + split; [|split; assumption].
      intros y [Ey|Hy]; [subst; lia|]. specialize (H1 y Hy). lia.
    + split; [|now apply IH].
      intros y Hy. apply (Permutation_in _ (insert_desc_perm r l)) in Hy.
      destruct Hy as [Ey|Hy]; [subst; lia|now apply H1].
Qed.

Lemma sort_desc_perm : forall l, Permutation (sort_desc l) l.
Proof.
  induction l as [|x l IH]; cbn.
  - constructor.
  - eapply perm_trans; [apply insert_desc_perm|now apply perm_skip].
Qed.

Lemma sort_desc_sorted : forall l, sorted_desc (sort_desc l).
Proof.
  induction l as [|x l IH]; cbn.
  - exact I.
  - now apply insert_desc_sorted.
Qed.

(* ------------------------------------------------------------------ *)
(* nth_error / firstn / skipn                                           *)
(* ------------------------------------------------------------------ *)
Lemma nth_error_skipn' : forall (A : Type) (l : list A) p i,
  nth_error (skipn p l) i = nth_error l (p + i)%nat.
Proof.
  intros A l. induction l as [|x l IH]; intros p i.
  - rewrite skipn_nil. destruct i, p; reflexivity.
  - destruct p; cbn; [reflexivity|apply IH].
Qed.

Lemma nth_error_firstn' : forall (A : Type) (l : list A) p i x,
  nth_error (firstn p l) i = Some x -> (i < p)%nat /\ nth_error l i = Some x.
Proof.
  intros A l. induction l as [|h l IH]; intros p i x H.
  - rewrite firstn_nil in H. destruct i; discriminate.
  - destruct p; cbn in H; [destruct i; discriminate|].
    destruct i; cbn in *.
    + split; [lia|assumption].
    + apply IH in H. destruct H. split; [lia|assumption].
Qed.

Lemma in_firstn_nth : forall (A : Type) (l : list A) p x,
  In x (firstn p l) -> exists i, (i < p)%nat /\ nth_error l i = Some x.
Proof.
  intros A l p x H. apply In_nth_error in H. destruct H as [i H].
  exists i. now apply nth_error_firstn' in H.
Qed.

Lemma in_skipn_nth : forall (A : Type) (l : list A) p x,
  In x (skipn p l) -> exists i, (p <= i)%nat /\ nth_error l i = Some x.
Proof.
  intros A l p x H. apply In_nth_error in H. destruct H as [i H].
  rewrite nth_error_skipn' in H. exists (p + i)%nat. split; [lia|assumption].
Qed.

Lemma skipn_nth_cons : forall (A : Type) (l : list A) i x,
  nth_error l i = Some x -> skipn i l = x :: skipn (S i) l.
Proof.
  intros A l. induction l as [|h l IH]; intros i x H.
  - destruct i; discriminate.
  - destruct i; cbn in *.
    + now inversion H.
    + now apply IH.
Qed.

Lemma split_at_nth : forall (A : Type) (l : list A) i x,
  nth_error l i = Some x -> l = firstn i l ++ x :: skipn (S i) l.
Proof.
  intros A l i x H. rewrite <- (skipn_nth_cons _ _ _ _ H). now rewrite firstn_skipn.
Qed.

(* sortedness in index form *)
Lemma sorted_nth : forall l i j x y,
  sorted_desc l -> (i <= j)%nat ->
  nth_error l i = Some x -> nth_error l j = Some y -> rsal y <= rsal x.
Proof.
  induction l as [|h l IH]; intros i j x y HS Hij Hi Hj.
  - destruct i; discriminate.
  - destruct HS as [H1 H2]. destruct i; cbn in Hi.
    + inversion Hi. subst. destruct j; cbn in Hj.
      * inversion Hj. lia.
      * apply H1. eapply nth_error_In. eassumption.
    + destruct j; [lia|]. cbn in Hj. eapply (IH i j); eauto. lia.
Qed.

(* ------------------------------------------------------------------ *)
(* binary search                                                        *)
(* ------------------------------------------------------------------ *)
Definition valid_pos (re : list rule) (s : Z) (p : nat) : Prop :=
  forall i r, nth_error re i = Some r ->
    ((i < p)%nat -> s <= rsal r) /\ ((p <= i)%nat -> rsal r <= s).

Lemma bsearch_loop_spec : forall fuel re s low high,
  sorted_desc re ->
  0 <= low -> high < Z.of_nat (length re) ->
  high - low + 1 <= Z.of_nat fuel ->
  (forall i r, nth_error re i = Some r -> Z.of_nat i < low -> s < rsal r) ->
  (forall i r, nth_error re i = Some r -> high < Z.of_nat i -> rsal r < s) ->
  forall l m, bsearch_loop fuel re s low high = (l, m) ->
  (m = 0 -> valid_pos re s (Z.to_nat l)) /\ (m <> 0 -> valid_pos re s (Z.to_nat m)).
Proof.
  induction fuel as [|f IH]; intros re s low high HS Hlow Hhigh Hfuel HL HH l m Hres.
  - cbn in Hres. inversion Hres. subst l m. split; [|congruence].
    intros _ i r Hi. split; intros Hlt.
    + specialize (HL i r Hi). lia.
    + specialize (HH i r Hi). lia.
  - cbn [bsearch_loop] in Hres.
    destruct (Z.leb low high) eqn:Elh.
    2:{ inversion Hres. subst l m. split; [|congruence].
        intros _ i r Hi. split; intros Hlt.
        + specialize (HL i r Hi). lia.
        + specialize (HH i r Hi). lia. }
    remember ((low + high) / 2) as mid eqn:Emid.
    apply Z.leb_le in Elh.
    assert (Hmid : low <= mid <= high).
    { subst mid. clear - Elh. Z.div_mod_to_equations. lia. }
    clear Emid.
    destruct (nth_error re (Z.to_nat mid)) as [r|] eqn:Enth.
    2:{ apply nth_error_None in Enth. lia. }
    destruct (Z.eqb (rsal r) s) eqn:Eeq.
    { inversion Hres. subst l m.
      assert (HV : valid_pos re s (Z.to_nat mid)).
      { intros i x Hi. split; intros Hlt.
        - pose proof (sorted_nth re i (Z.to_nat mid) x r HS ltac:(lia) Hi Enth). lia.
        - pose proof (sorted_nth re (Z.to_nat mid) i r x HS ltac:(lia) Enth Hi). lia. }
      split; intros Hm; [|exact HV].
      assert (low = mid) by lia. subst low. exact HV. }
    destruct (Z.ltb (rsal r) s) eqn:Elt.
    + apply (IH re s low (mid - 1)); try assumption; try lia.
      intros i x Hi Hlt.
      pose proof (sorted_nth re (Z.to_nat mid) i r x HS ltac:(lia) Enth Hi). lia.
    + apply (IH re s (mid + 1) high); try assumption; try lia.
      intros i x Hi Hlt.
      pose proof (sorted_nth re i (Z.to_nat mid) x r HS ltac:(lia) Hi Enth). lia.
Qed.

Lemma insert_pos_valid : forall re s, sorted_desc re -> valid_pos re s (insert_pos re s).
Proof.
  intros re s HS. unfold insert_pos, binary_search.
  destruct (bsearch_loop (S (length re)) re s 0 (Z.of_nat (length re) - 1)) as [l m] eqn:E.
  apply bsearch_loop_spec in E; try assumption; try lia.
  - destruct E as [E0 E1]. destruct (Z.eqb m 0) eqn:Em.
    + apply E0. lia.
    + apply E1. lia.
  - intros i r Hi Hlt. assert (nth_error re i <> None) as Hn by congruence.
    apply nth_error_Some in Hn. lia.
Qed.

Lemma insert_at_sorted : forall re v p,
  sorted_desc re -> valid_pos re (rsal v) p -> sorted_desc (insert_at p v re).
Proof.
  intros re v p HS HV. unfold insert_at.
  rewrite <- (firstn_skipn p re) in HS. apply sorted_app in HS.
  destruct HS as (HS1 & HS2 & HS3).
  apply sorted_app. split; [assumption|]. split.
  - cbn. split; [|assumption]. intros y Hy.
    apply in_skipn_nth in Hy. destruct Hy as (i & Hi & Hn).
    now apply (HV i y Hn).
  - intros x y Hx [Ey|Hy].
    + subst y. apply in_firstn_nth in Hx. destruct Hx as (i & Hi & Hn).
      now apply (HV i x Hn).
    + now apply HS3.
Qed.

Lemma insert_at_perm : forall p v l, Permutation (insert_at p v l) (v :: l).
Proof.
  intros p v l. unfold insert_at. apply Permutation_sym.
  rewrite <- (firstn_skipn p l) at 1. apply Permutation_middle.
Qed.

Lemma delete_at_perm : forall i x l,
  nth_error l i = Some x -> Permutation l (x :: delete_at i l).
Proof.
  intros i x l H. unfold delete_at.
  rewrite (split_at_nth _ l i x H) at 1. apply Permutation_sym, Permutation_middle.
Qed.

Lemma delete_at_sorted : forall i l, sorted_desc l -> sorted_desc (delete_at i l).
Proof.
  intros i l HS. unfold delete_at.
  destruct (nth_error l i) as [x|] eqn:E.
  - rewrite (split_at_nth _ l i x E) in HS. apply sorted_app in HS.
    destruct HS as (H1 & [H2 H3] & H4). apply sorted_app. repeat split; try assumption.
    intros a b Ha Hb. apply H4; [assumption|now right].
  - apply nth_error_None in E. rewrite (skipn_all2 l) by lia.
    rewrite firstn_all2 by assumption. now rewrite app_nil_r.
Qed.

Lemma replace_at_perm : forall i v x l,
  nth_error l i = Some x -> Permutation (replace_at i v l) (v :: delete_at i l).
Proof.
  intros i v x l. revert i. induction l as [|h l IH]; intros i H.
  - destruct i; discriminate.
  - destruct i; cbn in *.
    + apply Permutation_refl.
    + eapply perm_trans; [apply perm_skip, IH, H|]. apply perm_swap.
Qed.

Lemma replace_at_in : forall i v l y, In y (replace_at i v l) -> y = v \/ In y l.
Proof.
  intros i v l. revert i. induction l as [|h l IH]; intros i y H.
  - destruct i; destruct H.
  - destruct i; cbn in H.
    + destruct H as [E|H]; [now left|right; now right].
    + destruct H as [E|H]; [right; now left|].
      apply IH in H. destruct H; [now left|right; now right].
Qed.

Lemma replace_at_sorted : forall i v x l,
  nth_error l i = Some x -> rsal v = rsal x -> sorted_desc l -> sorted_desc (replace_at i v l).
Proof.
  intros i v x l. revert i. induction l as [|h l IH]; intros i Hn Hs HS.
  - destruct i; discriminate.
  - destruct HS as [H1 H2]. destruct i; cbn in *.
    + inversion Hn. subst h. split; [|assumption]. intros y Hy. rewrite Hs. now apply H1.
    + split; [|now apply IH]. intros y Hy. apply replace_at_in in Hy.
      destruct Hy as [E|Hy]; [|now apply H1].
      subst y. rewrite Hs. apply H1. eapply nth_error_In. eassumption.
Qed.

Lemma replace_at_nth : forall i v l j r,
  nth_error (replace_at i v l) j = Some r ->
  (j = i /\ r = v) \/ (j <> i /\ nth_error l j = Some r).
Proof.
  intros i v l. revert i. induction l as [|h l IH]; intros i j r H.
  - destruct i, j; discriminate.
  - destruct i, j; cbn in *.
    + inversion H. now left.
    + right. split; [lia|assumption].
    + right. split; [lia|assumption].
    + apply IH in H. destruct H as [[E1 E2]|[E1 E2]]; [left|right]; split; auto.
Qed.

(* ------------------------------------------------------------------ *)
(* mk_index                                                             *)
(* ------------------------------------------------------------------ *)
Lemma mk_index_loop_notin : forall l i acc n,
  ~ In n (map rname l) -> alookup n (mk_index_loop i l acc) = alookup n acc.
Proof.
  induction l as [|x l IH]; intros i acc n Hn; cbn.
  - reflexivity.
  - cbn in Hn. rewrite IH by tauto. rewrite alookup_aset.
    destruct (String.eqb (rname x) n) eqn:E; [|reflexivity].
    apply String.eqb_eq in E. tauto.
Qed.

Lemma mk_index_loop_nth : forall l i acc j r,
  NoDup (map rname l) -> nth_error l j = Some r ->
  alookup (rname r) (mk_index_loop i l acc) = Some (i + j)%nat.
Proof.
  induction l as [|x l IH]; intros i acc j r ND Hn.
  - destruct j; discriminate.
  - cbn in ND. inversion ND as [|y ys Hnotin ND']. subst.
    destruct j; cbn in Hn |- *.
    + inversion Hn. subst x. rewrite mk_index_loop_notin by assumption.
      rewrite alookup_aset, String.eqb_refl. f_equal. lia.
    + rewrite (IH (S i) _ j r ND' Hn). f_equal. lia.
Qed.

Lemma mk_index_nth : forall l j r,
  NoDup (map rname l) -> nth_error l j = Some r -> alookup (rname r) (mk_index l) = Some j.
Proof.
  intros l j r ND Hn. unfold mk_index. now rewrite (mk_index_loop_nth l 0 [] j r ND Hn).
Qed.

(* ------------------------------------------------------------------ *)
(* invariant building blocks                                            *)
(* ------------------------------------------------------------------ *)
Definition names_ok (es : list (string * rule)) : Prop :=
  forall n r, In (n, r) es -> rname r = n.

Lemma names_ok_map : forall es, names_ok es -> map rname (map snd es) = map fst es.
Proof.
  induction es as [|[k w] es IH]; intros H; cbn.
  - reflexivity.
  - f_equal.
    + apply H. now left.
    + apply IH. intros n r Hin. apply H. now right.
Qed.

Lemma sorted_names_nodup : forall es srt,
  NoDup (map fst es) -> names_ok es -> Permutation srt (map snd es) ->
  NoDup (map rname srt).
Proof.
  intros es srt ND NM PM.
  apply (Permutation_NoDup (l := map fst es)); [|assumption].
  rewrite <- (names_ok_map es NM). apply Permutation_sym. now apply Permutation_map.
Qed.

Lemma mk_inv : forall es srt,
  NoDup (map fst es) -> names_ok es -> Permutation srt (map snd es) -> sorted_desc srt ->
  Inv (mkKc es srt (mk_index srt)).
Proof.
  intros es srt ND NM PM SD. unfold Inv; cbn [ents sorted index].
  repeat split; try assumption.
  intros i r Hn. apply mk_index_nth; [|assumption].
  eapply sorted_names_nodup; eassumption.
Qed.

Lemma build_inv : forall es l,
  NoDup (map fst es) -> names_ok es -> Permutation l (map snd es) ->
  Inv (mkKc es (sort_desc l) (mk_index (sort_desc l))).
Proof.
  intros es l ND NM PM. apply mk_inv; try assumption.
  - eapply perm_trans; [apply sort_desc_perm|assumption].
  - apply sort_desc_sorted.
Qed.

Lemma inv_names_unique : forall k, Inv k -> NoDup (map rname (sorted k)).
Proof.
  intros k (ND & NM & PM & _). eapply sorted_names_nodup; eassumption.
Qed.

Lemma inv_is_exist : forall k n, Inv k ->
  (is_exist k n = true <-> exists r, In r (sorted k) /\ rname r = n).
Proof.
  intros k n (ND & NM & PM & _). unfold is_exist. split.
  - destruct (alookup n (ents k)) as [r|] eqn:E; [|discriminate]. intros _.
    apply alookup_in in E. exists r. split; [|now apply (NM n r)].
    apply (Permutation_in _ (Permutation_sym PM)).
    apply in_map_iff. exists (n, r). split; [reflexivity|assumption].
  - intros (r & Hin & Hname).
    apply (Permutation_in _ PM) in Hin. apply in_map_iff in Hin.
    destruct Hin as ([k' r'] & E & Hin). cbn in E. subst r'.
    pose proof (NM k' r Hin) as Hk. rewrite Hname in Hk. subst k'.
    destruct (in_alookup_some _ _ _ Hin) as [r' Hr']. now rewrite Hr'.
Qed.

Lemma NoDup_map_filter : forall (A B : Type) (g : A -> B) (f : A -> bool) l,
  NoDup (map g l) -> NoDup (map g (filter f l)).
Proof.
  intros A B g f l. induction l as [|x l IH]; cbn; intros ND.
  - constructor.
  - inversion ND as [|y ys Hnotin ND']. subst. destruct (f x); cbn.
    + constructor; [|now apply IH]. intros Hin. apply Hnotin.
      apply in_map_iff in Hin. destruct Hin as (a & Ea & Ha).
      apply filter_In in Ha. apply in_map_iff. exists a. tauto.
    + now apply IH.
Qed.

(* ------------------------------------------------------------------ *)
(* entity-map update facts                                              *)
(* ------------------------------------------------------------------ *)
Lemma aset_none_facts : forall es v,
  NoDup (map fst es) -> names_ok es -> alookup (rname v) es = None ->
  NoDup (map fst (aset (rname v) v es)) /\
  names_ok (aset (rname v) v es) /\
  (forall srt, Permutation srt (map snd es) ->
               Permutation (v :: srt) (map snd (aset (rname v) v es))).
Proof.
  intros es v ND NM Elk. rewrite (aset_none _ v _ Elk). repeat split.
  - rewrite map_app. cbn.
    apply (Permutation_NoDup (l := rname v :: map fst es)).
    + apply Permutation_cons_append.
    + constructor; [|assumption]. now apply alookup_none.
  - intros n r Hin. apply in_app_or in Hin. destruct Hin as [Hin|[E|[]]].
    + now apply NM.
    + now inversion E.
  - intros srt PM. rewrite map_app. cbn.
    eapply perm_trans; [apply perm_skip, PM|]. apply Permutation_cons_append.
Qed.

Lemma aset_some_facts : forall es v vm,
  NoDup (map fst es) -> names_ok es -> alookup (rname v) es = Some vm ->
  NoDup (map fst (aset (rname v) v es)) /\
  names_ok (aset (rname v) v es) /\
  (forall srt i, Permutation srt (map snd es) -> nth_error srt i = Some vm ->
                 Permutation (v :: delete_at i srt) (map snd (aset (rname v) v es))).
Proof.
  intros es v vm ND NM Elk.
  destruct (alookup_split _ _ _ Elk) as (es1 & es2 & Ees & Eset).
  rewrite (Eset v). repeat split.
  - rewrite Ees in ND. rewrite map_app in *. exact ND.
  - intros n r Hin. apply in_app_or in Hin. destruct Hin as [Hin|[E|Hin]].
    + apply NM. rewrite Ees. apply in_or_app. now left.
    + now inversion E.
    + apply NM. rewrite Ees. apply in_or_app. right. now right.
  - intros srt i PM Hn.
    rewrite map_app. cbn. eapply perm_trans; [|apply Permutation_middle].
    apply perm_skip. apply (Permutation_cons_inv (a := vm)).
    eapply perm_trans; [apply Permutation_sym, delete_at_perm, Hn|].
    eapply perm_trans; [apply PM|].
    rewrite Ees, map_app. cbn. apply Permutation_sym, Permutation_middle.
Qed.

(* ------------------------------------------------------------------ *)
(* the incremental loop                                                 *)
(* ------------------------------------------------------------------ *)
Definition state : Type := (list (string * rule) * list rule * list (string * nat))%type.
Definition st_kc (st : state) : kc := mkKc (fst (fst st)) (snd (fst st)) (snd st).

Lemma incr_one_inv : forall (st : state) v, Inv (st_kc st) -> Inv (st_kc (incr_one st v)).
Proof.
  intros [[es srt] idx] v. unfold st_kc at 1. cbn [fst snd].
  intros (ND & NM & PM & SD & IX). cbn [ents sorted index] in *.
  unfold incr_one. destruct (alookup (rname v) es) as [vm|] eqn:Elk.
  - (* the rule already exists *)
    destruct (aset_some_facts es v vm ND NM Elk) as (ND' & NM' & PM').
    assert (Hin : In (rname v, vm) es) by now apply alookup_in.
    assert (Hname : rname vm = rname v) by now apply (NM _ _ Hin).
    assert (Hsrt : In vm srt).
    { apply (Permutation_in _ (Permutation_sym PM)). apply in_map_iff.
      exists (rname v, vm). split; [reflexivity|assumption]. }
    apply In_nth_error in Hsrt. destruct Hsrt as [i0 Hi0].
    pose proof (IX i0 vm Hi0) as Hidx. rewrite Hname in Hidx. rewrite Hidx.
    specialize (PM' srt i0 PM Hi0).
    destruct (Z.eqb (rsal v) (rsal vm)) eqn:Esal.
    + apply Z.eqb_eq in Esal. unfold st_kc, Inv. cbn [fst snd ents sorted index].
      repeat split; try assumption.
      * eapply perm_trans; [eapply replace_at_perm, Hi0|exact PM'].
      * eapply replace_at_sorted; eassumption.
      * intros j r Hj. apply replace_at_nth in Hj. destruct Hj as [[Ej Er]|[Ej Hj]].
        -- subst. assumption.
        -- now apply IX.
    + unfold st_kc. cbn [fst snd]. apply mk_inv; try assumption.
      * eapply perm_trans; [apply insert_at_perm|exact PM'].
      * apply insert_at_sorted; [now apply delete_at_sorted|].
        apply insert_pos_valid. now apply delete_at_sorted.
  - (* a new rule *)
    destruct (aset_none_facts es v ND NM Elk) as (ND' & NM' & PM').
    unfold st_kc. cbn [fst snd]. apply mk_inv; try assumption.
    + eapply perm_trans; [apply insert_at_perm|now apply PM'].
    + apply insert_at_sorted; [assumption|now apply insert_pos_valid].
Qed.

Lemma incr_one_abs : forall (st : state) v n,
  alookup n (fst (fst (incr_one st v))) =
  if String.eqb (rname v) n then Some v else alookup n (fst (fst st)).
Proof.
  intros [[es srt] idx] v n. unfold incr_one. cbn [fst snd].
  destruct (alookup (rname v) es) as [vm|];
    [destruct (Z.eqb (rsal v) (rsal vm))|]; cbn [fst snd]; apply alookup_aset.
Qed.

Lemma fold_incr_inv : forall l (st : state),
  Inv (st_kc st) -> Inv (st_kc (fold_left incr_one l st)).
Proof.
  induction l as [|v l IH]; intros st H; cbn.
  - assumption.
  - apply IH. now apply incr_one_inv.
Qed.

Lemma find_name_notin : forall n l,
  ~ In n (map rname l) -> find (fun r => String.eqb (rname r) n) l = None.
Proof.
  intros n l. induction l as [|x l IH]; cbn; intros H.
  - reflexivity.
  - destruct (String.eqb (rname x) n) eqn:E.
    + apply String.eqb_eq in E. tauto.
    + apply IH. tauto.
Qed.

Lemma fold_incr_abs : forall l (st : state) n,
  NoDup (map rname l) ->
  alookup n (fst (fst (fold_left incr_one l st))) =
  match find (fun r => String.eqb (rname r) n) l with
  | Some r => Some r
  | None => alookup n (fst (fst st))
  end.
Proof.
  induction l as [|v l IH]; intros st n ND; cbn.
  - reflexivity.
  - inversion ND as [|y ys Hnotin ND']. subst.
    rewrite (IH _ n ND'), incr_one_abs.
    destruct (String.eqb (rname v) n) eqn:E; [|reflexivity].
    apply String.eqb_eq in E. subst n. now rewrite find_name_notin.
Qed.

Lemma find_name_spec : forall n l r,
  NoDup (map rname l) ->
  (find (fun r => String.eqb (rname r) n) l = Some r <-> In r l /\ rname r = n).
Proof.
  intros n l r ND. split.
  - intros H. apply find_some in H. destruct H as [H1 H2].
    apply String.eqb_eq in H2. tauto.
  - induction l as [|x l IH]; cbn; intros [Hin Hname]; [destruct Hin|].
    inversion ND as [|y ys Hnotin ND']. subst.
    destruct Hin as [E|Hin].
    + subst x. now rewrite String.eqb_refl.
    + destruct (String.eqb (rname x) (rname r)) eqn:E.
      * apply String.eqb_eq in E. exfalso. apply Hnotin. rewrite E. now apply in_map.
      * apply IH; [assumption|tauto].
Qed.

Lemma find_name_perm : forall n l1 l2,
  NoDup (map rname l2) -> Permutation l1 l2 ->
  find (fun r => String.eqb (rname r) n) l1 = find (fun r => String.eqb (rname r) n) l2.
Proof.
  intros n l1 l2 ND2 PM.
  assert (ND1 : NoDup (map rname l1)).
  { apply (Permutation_NoDup (l := map rname l2)); [|assumption].
    apply Permutation_sym. now apply Permutation_map. }
  destruct (find _ l2) as [r|] eqn:E2.
  - apply (find_name_spec n l2 r ND2) in E2. apply (find_name_spec n l1 r ND1).
    destruct E2 as [Hin Hname]. split; [|assumption].
    now apply (Permutation_in _ (Permutation_sym PM)).
  - destruct (find _ l1) as [r|] eqn:E1; [|reflexivity].
    apply (find_name_spec n l1 r ND1) in E1. destruct E1 as [Hin Hname].
    assert (E : find (fun r0 => String.eqb (rname r0) n) l2 = Some r).
    { apply (find_name_spec n l2 r ND2). split; [|assumption]. now apply (Permutation_in _ PM). }
    congruence.
Qed.

(* ------------------------------------------------------------------ *)
(* abstraction of full build and removal                                *)
(* ------------------------------------------------------------------ *)
Lemma alookup_map_find : forall n rs,
  alookup n (map (fun r => (rname r, r)) rs) = rs_of_list rs n.
Proof.
  intros n rs. unfold rs_of_list. induction rs as [|x rs IH]; cbn.
  - reflexivity.
  - destruct (String.eqb (rname x) n); [reflexivity|assumption].
Qed.

Lemma alookup_filter_memb : forall n ns (es : list (string * rule)),
  alookup n (filter (fun p => negb (memb (fst p) ns)) es) =
  if memb n ns then None else alookup n es.
Proof.
  intros n ns es. induction es as [|[k w] es IH]; cbn.
  - now destruct (memb n ns).
  - destruct (memb k ns) eqn:Ek; cbn.
    + rewrite IH. destruct (String.eqb k n) eqn:Ekn; [|reflexivity].
      apply String.eqb_eq in Ekn. subst k. now rewrite Ek.
    + rewrite IH. destruct (String.eqb k n) eqn:Ekn; [|reflexivity].
      apply String.eqb_eq in Ekn. subst k. now rewrite Ek.
Qed.

Lemma full_es_facts : forall rs,
  compiles rs = true ->
  NoDup (map fst (map (fun r => (rname r, r)) rs)) /\
  names_ok (map (fun r => (rname r, r)) rs) /\
  map snd (map (fun r => (rname r, r)) rs) = rs.
Proof.
  intros rs Hc. repeat split.
  - rewrite map_map. cbn. now apply compiles_NoDup.
  - intros n r Hin. apply in_map_iff in Hin. destruct Hin as (x & E & _). now inversion E.
  - rewrite map_map. cbn. apply map_id.
Qed.

Lemma remove_es_facts : forall ns es,
  NoDup (map fst es) -> names_ok es ->
  NoDup (map fst (filter (fun p : string * rule => negb (memb (fst p) ns)) es)) /\
  names_ok (filter (fun p : string * rule => negb (memb (fst p) ns)) es).
Proof.
  intros ns es ND NM. split.
  - now apply NoDup_map_filter.
  - intros n r Hin. apply filter_In in Hin. now apply NM.
Qed.

Lemma st_kc_init : forall k, st_kc (ents k, sorted k, index k) = k.
Proof. intros [es srt idx]. reflexivity. Qed.

(* ------------------------------------------------------------------ *)
(* main results                                                         *)
(* ------------------------------------------------------------------ *)
Section Main.
  Variable shuffle : nat -> list rule -> list rule.
  Hypothesis shuffle_perm : forall n l, Permutation (shuffle n l) l.

  Lemma step_incr_eq : forall k seed rs,
    compiles rs = true ->
    step shuffle k (Incr seed rs) =
    st_kc (fold_left incr_one (shuffle seed rs) (ents k, sorted k, index k)).
  Proof.
    intros k seed rs Hc. cbn [step]. rewrite Hc.
    now destruct (fold_left incr_one (shuffle seed rs) (ents k, sorted k, index k)) as [[es srt] idx].
  Qed.

  Lemma step_inv : forall k o, Inv k -> Inv (step shuffle k o).
  Proof.
    intros k o HI. destruct o as [seed rs|seed rs|seed ns|b].
    - cbn [step]. destruct (compiles rs) eqn:Hc; [|assumption].
      destruct (full_es_facts rs Hc) as (ND & NM & Esnd).
      apply build_inv; try assumption. rewrite Esnd. apply shuffle_perm.
    - destruct (compiles rs) eqn:Hc.
      + rewrite (step_incr_eq k seed rs Hc). apply fold_incr_inv. now rewrite st_kc_init.
      + cbn [step]. now rewrite Hc.
    - cbn [step]. destruct ns as [|n0 ns]; [assumption|].
      destruct HI as (ND & NM & _).
      destruct (remove_es_facts (n0 :: ns) (ents k) ND NM) as (ND' & NM').
      apply build_inv; try assumption. apply shuffle_perm.
    - assumption.
  Qed.

  Lemma step_abs : forall k o, Inv k ->
    forall n, abs (step shuffle k o) n = apply_op (abs k) o n.
  Proof.
    intros k o HI n. destruct o as [seed rs|seed rs|seed ns|b].
    - cbn [step apply_op]. destruct (compiles rs) eqn:Hc; [|reflexivity].
      unfold abs. cbn [ents]. apply alookup_map_find.
    - destruct (compiles rs) eqn:Hc.
      + rewrite (step_incr_eq k seed rs Hc). cbn [apply_op]. rewrite Hc.
        unfold abs, st_kc. cbn [ents].
        assert (ND : NoDup (map rname rs)) by now apply compiles_NoDup.
        rewrite fold_incr_abs.
        * cbn [fst]. unfold rs_of_list.
          now rewrite (find_name_perm n (shuffle seed rs) rs ND (shuffle_perm seed rs)).
        * apply (Permutation_NoDup (l := map rname rs)); [|assumption].
          apply Permutation_sym, Permutation_map, shuffle_perm.
      + cbn [step apply_op]. now rewrite Hc.
    - cbn [step apply_op]. destruct ns as [|n0 ns]; [reflexivity|].
      unfold abs. cbn [ents]. apply alookup_filter_memb.
    - reflexivity.
  Qed.

  Lemma apply_op_ext : forall s s' o,
    (forall n, s n = s' n) -> forall n, apply_op s o n = apply_op s' o n.
  Proof.
    intros s s' o H n. destruct o as [seed rs|seed rs|seed ns|b]; cbn [apply_op].
    - destruct (compiles rs); [reflexivity|apply H].
    - destruct (compiles rs); [|apply H]. destruct (rs_of_list rs n); [reflexivity|apply H].
    - destruct (memb n ns); [reflexivity|apply H].
    - apply H.
  Qed.

  Lemma histories_gen : forall ops k s,
    Inv k -> (forall n, abs k n = s n) ->
    Inv (fold_left (step shuffle) ops k) /\
    (forall n, abs (fold_left (step shuffle) ops k) n = fold_left apply_op ops s n).
  Proof.
    induction ops as [|o ops IH]; intros k s HI Habs; cbn [fold_left].
    - split; assumption.
    - apply IH.
      + now apply step_inv.
      + intros n. rewrite (step_abs k o HI n). now apply apply_op_ext.
  Qed.

  Lemma inv_empty : Inv kc_empty.
  Proof.
    unfold Inv, kc_empty; cbn. repeat split; try constructor.
    - intros n r [].
    - intros i r H. destruct i; discriminate.
  Qed.

  Theorem histories_ok : forall ops,
    Inv (run shuffle ops) /\ (forall n, abs (run shuffle ops) n = denote ops n).
  Proof.
    intros ops. unfold run, denote. apply histories_gen.
    - apply inv_empty.
    - reflexivity.
  Qed.
End Main.

Lemma err_unchanged : forall shuffle k o, step_err k o = true -> step shuffle k o = k.
Proof.
  intros shuffle k o H. destruct o as [seed rs|seed rs|seed ns|b]; cbn in *.
  - apply negb_true_iff in H. now rewrite H.
  - apply negb_true_iff in H. now rewrite H.
  - destruct ns; [reflexivity|discriminate].
  - reflexivity.
Qed.

(* ------------------------------------------------------------------ *)
(* non-vacuity: a concrete history                                      *)
(* ------------------------------------------------------------------ *)
Section Example.
  Local Open Scope string_scope.
  Let id_shuffle : nat -> list rule -> list rule := fun _ l => l.
  Let ra  := mkRule "a" 10 "rule a" 1.
  Let rb  := mkRule "b" 5  "rule b" 2.
  Let rc  := mkRule "c" 1  "rule c" 3.
  Let rd  := mkRule "d" 7  "rule d" 4.
  Let rc' := mkRule "c" 20 "rule c, moved" 5.

  Let history : list op :=
    [ Full 0 [ra; rb; rc];          (* a(10) b(5) c(1) *)
      Bad true;                     (* an erroring text changes nothing *)
      Incr 1 [rd; rc'];             (* adds d(7), moves c from 1 to 20 *)
      Remove 2 ["b"] ].

  Example history_after_incr :
    map rname (sorted (run id_shuffle (firstn 3 history))) = ["c"; "a"; "d"; "b"].
  Proof. vm_compute. reflexivity. Qed.

  Example history_names :
    map rname (sorted (run id_shuffle history)) = ["c"; "a"; "d"] /\
    sorted_descb (sorted (run id_shuffle history)) = true /\
    map (is_exist (run id_shuffle history)) ["a"; "b"; "c"; "d"] = [true; false; true; true] /\
    index (run id_shuffle history) = [("c", 0%nat); ("a", 1%nat); ("d", 2%nat)] /\
    abs (run id_shuffle history) "c" = Some rc'.
  Proof. vm_compute. repeat split; reflexivity. Qed.
End Example.

Print Assumptions histories_ok.
Print Assumptions step_inv.
Print Assumptions step_abs.
