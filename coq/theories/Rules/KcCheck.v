(* Rules/KcCheck.v — correspondence checker for C08: compares, inside Coq, the
   container dumped from the Go builder after every operation of a history
   with the model state (KcModel.step with the identity shuffle), modulo the
   order among equal saliences (Go map iteration order is arbitrary). *)
From Coq Require Import String List ZArith Bool.
From GV Require Import Rules.KcModel.
Import ListNotations.

Record obs_step := mkObs {
  o_err    : bool;
  o_sorted : list rule;            (* SortRules, in order *)
  o_ents   : list rule;            (* RuleEntities values, sorted by key *)
  o_keys   : list string;          (* RuleEntities keys, sorted *)
  o_index  : list (string * nat);  (* SortRulesIndexMap *)
  o_exist  : list bool             (* IsExist(probe) *)
}.

Record case := mkCase {
  c_id    : nat;
  c_probe : list string;
  c_steps : list (op * obs_step)
}.

Definition idshuffle (_ : nat) (l : list rule) : list rule := l.

Fixpoint list_eqb {A} (eqb : A -> A -> bool) (a b : list A) : bool :=
  match a, b with
  | [], [] => true
  | x :: a', y :: b' => eqb x y && list_eqb eqb a' b'
  | _, _ => false
  end.

Fixpoint index_ok_from (i : nat) (l : list rule) (idx : list (string * nat)) : bool :=
  match l with
  | [] => true
  | r :: l' =>
    match alookup (rname r) idx with
    | Some j => Nat.eqb i j && index_ok_from (S i) l' idx
    | None => false
    end
  end.

Definition flag (b : bool) (code : nat) : list nat := if b then [] else [code].

Definition check_step (k k' : kc) (o : op) (probe : list string) (ob : obs_step) : list nat :=
  flag (Bool.eqb (o_err ob) (step_err k o)) 1 ++
  flag (Nat.eqb (length (o_ents ob)) (length (ents k')) &&
        forallb (fun r => match alookup (rname r) (ents k') with
                          | Some r' => rule_eqb r r' | None => false end) (o_ents ob)) 2 ++
  flag (list_eqb String.eqb (o_keys ob) (map rname (o_ents ob))) 3 ++
  flag (sorted_descb (o_sorted ob)) 4 ++
  flag (Nat.eqb (length (o_sorted ob)) (length (o_ents ob)) &&
        nodupb (map rname (o_sorted ob)) &&
        forallb (fun r => existsb (rule_eqb r) (o_sorted ob)) (o_ents ob)) 5 ++
  flag (Nat.eqb (length (o_index ob)) (length (o_sorted ob)) &&
        index_ok_from 0 (o_sorted ob) (o_index ob)) 6 ++
  flag (list_eqb Z.eqb (map rsal (o_sorted ob)) (map rsal (sorted k'))) 7 ++
  flag (list_eqb Bool.eqb (o_exist ob) (map (is_exist k') probe)) 8.

Fixpoint check_steps (i : nat) (k : kc) (probe : list string) (steps : list (op * obs_step))
  : list (nat * nat) :=
  match steps with
  | [] => []
  | (o, ob) :: rest =>
    let k' := step idshuffle k o in
    map (fun c => (i, c)) (check_step k k' o probe ob) ++ check_steps (S i) k' probe rest
  end.

Definition check_case (c : case) : list (nat * (nat * nat)) :=
  map (fun p => (c_id c, p)) (check_steps 0 kc_empty (c_probe c) (c_steps c)).

Definition mismatches (cs : list case) : list (nat * (nat * nat)) := flat_map check_case cs.

(* distinct-nontrivial rule for the evidence: a history is non-trivial when some
   incremental build moves an existing rule to a different salience *)
Fixpoint has_move (k : kc) (steps : list op) : bool :=
  match steps with
  | [] => false
  | o :: rest =>
    (match o with
     | Incr _ rs => compiles rs &&
        existsb (fun r => match alookup (rname r) (ents k) with
                          | Some r0 => negb (Z.eqb (rsal r0) (rsal r)) | None => false end) rs
     | _ => false
     end) || has_move (step idshuffle k o) rest
  end.
Definition count_moves (cs : list case) : nat :=
  length (filter (fun c => has_move kc_empty (map fst (c_steps c))) cs).
