(* Rules/KcModel.v — executable model of builder/rule_builder.go + internal/tool/tool.go.
   Definitions only (no proofs) so that the model still runs when a proof breaks.

   Go object                         model
   ---------                         -----
   KnowledgeContext.RuleEntities     ents   : assoc list name -> rule (unique keys)
   KnowledgeContext.SortRules        sorted : list rule
   KnowledgeContext.SortRulesIndexMap index : assoc list name -> position
   Go map iteration order            [shuffle seed l], an arbitrary permutation
*)
From Coq Require Import String List ZArith Bool Lia Permutation.
Import ListNotations.
Local Open Scope Z_scope.

Record rule := mkRule { rname : string; rsal : Z; rdesc : string; rbody : Z }.

Definition rule_eqb (a b : rule) : bool :=
  String.eqb (rname a) (rname b) && Z.eqb (rsal a) (rsal b) &&
  String.eqb (rdesc a) (rdesc b) && Z.eqb (rbody a) (rbody b).

(* ---------- association lists (Go maps) ---------- *)
Section Assoc.
  Context {V : Type}.
  Fixpoint alookup (n : string) (m : list (string * V)) : option V :=
    match m with
    | [] => None
    | (k, v) :: m' => if String.eqb k n then Some v else alookup n m'
    end.
  Fixpoint aremove (n : string) (m : list (string * V)) : list (string * V) :=
    match m with
    | [] => []
    | (k, v) :: m' => if String.eqb k n then aremove n m' else (k, v) :: aremove n m'
    end.
  (* m[n] = v : replace in place if present, else append *)
  Fixpoint aset (n : string) (v : V) (m : list (string * V)) : list (string * V) :=
    match m with
    | [] => [(n, v)]
    | (k, w) :: m' => if String.eqb k n then (k, v) :: m' else (k, w) :: aset n v m'
    end.
End Assoc.

Fixpoint memb (n : string) (l : list string) : bool :=
  match l with [] => false | x :: l' => String.eqb x n || memb n l' end.

Fixpoint nodupb (l : list string) : bool :=
  match l with [] => true | x :: l' => negb (memb x l') && nodupb l' end.

(* ---------- the container ---------- *)
Record kc := mkKc {
  ents   : list (string * rule);
  sorted : list rule;
  index  : list (string * nat)
}.

Definition kc_empty : kc := mkKc [] [] [].

(* sort.SliceStable(rules, func(i,j) { return rules[i].Salience > rules[j].Salience })
   modelled as stable insertion sort, descending *)
Fixpoint insert_desc (r : rule) (l : list rule) : list rule :=
  match l with
  | [] => [r]
  | x :: l' => if Z.ltb (rsal x) (rsal r) then r :: x :: l' else x :: insert_desc r l'
  end.
Definition sort_desc (l : list rule) : list rule := fold_right insert_desc [] l.

(* for k, v := range sorted { indexMap[v.RuleName] = k } *)
(* later positions win in Go (the loop overwrites), so does this loop *)
Fixpoint mk_index_loop (i : nat) (l : list rule) (acc : list (string * nat)) : list (string * nat) :=
  match l with
  | [] => acc
  | r :: l' => mk_index_loop (S i) l' (aset (rname r) i acc)
  end.
Definition mk_index (l : list rule) : list (string * nat) := mk_index_loop 0 l [].

(* internal/tool/tool.go BinarySearch, literally: note that the outer [mid] is
   shadowed inside the loop, so the second component is 0 unless an equal
   salience is found. Fuel = length + 1 iterations suffice (proved). *)
Fixpoint bsearch_loop (fuel : nat) (re : list rule) (s : Z) (low high : Z) : Z * Z :=
  match fuel with
  | O => (low, 0)
  | S f =>
    if Z.leb low high then
      let mid := (low + high) / 2 in
      match nth_error re (Z.to_nat mid) with
      | None => (low, 0)              (* out of range: cannot happen for 0<=low<=high<len *)
      | Some r =>
        if Z.eqb (rsal r) s then (low, mid)
        else if Z.ltb (rsal r) s then bsearch_loop f re s low (mid - 1)
        else bsearch_loop f re s (mid + 1) high
      end
    else (low, 0)
  end.
Definition binary_search (re : list rule) (s : Z) : Z * Z :=
  bsearch_loop (S (length re)) re s 0 (Z.of_nat (length re) - 1).

Definition insert_pos (re : list rule) (s : Z) : nat :=
  let '(low, mid) := binary_search re s in
  if Z.eqb mid 0 then Z.to_nat low else Z.to_nat mid.

Definition insert_at (i : nat) (r : rule) (l : list rule) : list rule :=
  firstn i l ++ r :: skipn i l.
Definition delete_at (i : nat) (l : list rule) : list rule :=
  firstn i l ++ skipn (S i) l.
Fixpoint replace_at (i : nat) (r : rule) (l : list rule) : list rule :=
  match l, i with
  | [], _ => []
  | _ :: l', O => r :: l'
  | x :: l', S i' => x :: replace_at i' r l'
  end.

(* one iteration of the incremental loop over the freshly parsed rules.
   State: (new entity map, new sorted slice, live index map). *)
Definition incr_one (st : list (string * rule) * list rule * list (string * nat)) (v : rule)
  : list (string * rule) * list rule * list (string * nat) :=
  let '(es, srt, idx) := st in
  match alookup (rname v) es with
  | Some vm =>
    let i := match alookup (rname v) idx with Some i => i | None => O end in
    if Z.eqb (rsal v) (rsal vm) then
      (aset (rname v) v es, replace_at i v srt, idx)
    else
      let srt1 := delete_at i srt in
      let srt2 := insert_at (insert_pos srt1 (rsal v)) v srt1 in
      (aset (rname v) v es, srt2, mk_index srt2)
  | None =>
    let srt2 := insert_at (insert_pos srt (rsal v)) v srt in
    (aset (rname v) v es, srt2, mk_index srt2)
  end.

(* ---------- operations ---------- *)
Inductive op :=
| Full   (seed : nat) (rs : list rule)     (* BuildRuleFromString, text parsed to rs *)
| Incr   (seed : nat) (rs : list rule)     (* BuildRuleWithIncremental *)
| Remove (seed : nat) (ns : list string)   (* RemoveRules *)
| Bad    (incremental : bool).             (* a text that does not compile *)

Section Step.
  (* Go map iteration order: an arbitrary permutation chosen per iteration site *)
  Variable shuffle : nat -> list rule -> list rule.

  Definition compiles (rs : list rule) : bool :=
    match rs with [] => false | _ => nodupb (map rname rs) end.

  Definition step (k : kc) (o : op) : kc :=
    match o with
    | Full seed rs =>
      if compiles rs then
        let es := map (fun r => (rname r, r)) rs in
        let srt := sort_desc (shuffle seed rs) in
        mkKc es srt (mk_index srt)
      else k
    | Incr seed rs =>
      if compiles rs then
        let '(es, srt, idx) := fold_left incr_one (shuffle seed rs) (ents k, sorted k, index k) in
        mkKc es srt idx
      else k
    | Remove seed ns =>
      match ns with
      | [] => k
      | _ =>
        let es := filter (fun p => negb (memb (fst p) ns)) (ents k) in
        let srt := sort_desc (shuffle seed (map snd es)) in
        mkKc es srt (mk_index srt)
      end
    | Bad _ => k
    end.

  (* does the operation report an error? *)
  Definition step_err (k : kc) (o : op) : bool :=
    match o with
    | Full _ rs | Incr _ rs => negb (compiles rs)
    | Remove _ ns => match ns with [] => true | _ => false end
    | Bad _ => true
    end.

  Definition run (ops : list op) : kc := fold_left step ops kc_empty.
End Step.

(* ---------- specification: a rule set is a finite map name -> rule ---------- *)
Definition ruleset := string -> option rule.
Definition rs_empty : ruleset := fun _ => None.
Definition rs_of_list (rs : list rule) : ruleset :=
  fun n => find (fun r => String.eqb (rname r) n) rs.

Definition apply_op (s : ruleset) (o : op) : ruleset :=
  match o with
  | Full _ rs => if compiles rs then rs_of_list rs else s
  | Incr _ rs => if compiles rs
                 then fun n => match rs_of_list rs n with Some r => Some r | None => s n end
                 else s
  | Remove _ ns => fun n => if memb n ns then None else s n
  | Bad _ => s
  end.
Definition denote (ops : list op) : ruleset := fold_left apply_op ops rs_empty.

Definition abs (k : kc) : ruleset := fun n => alookup n (ents k).

(* ---------- invariant ---------- *)
Fixpoint sorted_desc (l : list rule) : Prop :=
  match l with
  | [] => True
  | x :: l' => (forall y, In y l' -> rsal y <= rsal x) /\ sorted_desc l'
  end.

Fixpoint sorted_descb (l : list rule) : bool :=
  match l with
  | [] => true
  | x :: l' => forallb (fun y => Z.leb (rsal y) (rsal x)) l' && sorted_descb l'
  end.

Definition Inv (k : kc) : Prop :=
  NoDup (map fst (ents k)) /\
  (forall n r, In (n, r) (ents k) -> rname r = n) /\
  Permutation (sorted k) (map snd (ents k)) /\
  sorted_desc (sorted k) /\
  (forall i r, nth_error (sorted k) i = Some r -> alookup (rname r) (index k) = Some i).

(* IsExist *)
Definition is_exist (k : kc) (n : string) : bool :=
  match alookup n (ents k) with Some _ => true | None => false end.
