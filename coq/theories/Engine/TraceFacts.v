(* Engine/TraceFacts.v — structural facts about [Interleave] / [traces] and the
   agreement of the executable acceptor [accepts] with the trace set [traces]. *)
From Coq Require Import String List ZArith Bool Lia Permutation.
From GV Require Import Engine.IR Engine.Hand Engine.Spec Engine.Trace.
Import ListNotations.

(* ---------- 4. an interleaving is a permutation of the threads' events ---------- *)
Lemma interleave_perm : forall A (ls : list (list A)) t,
  Interleave ls t -> Permutation t (concat ls).
Proof.
  intros A ls t H. induction H as [ls H | pre x l post t H IH].
  - induction H as [|l ls Hl H IH]; simpl.
    + constructor.
    + subst l. simpl. exact IH.
  - rewrite concat_app in *. simpl in *.
    apply Permutation_cons_app. exact IH.
Qed.

(* ---------- 5. traces of a concatenation ---------- *)
Lemma traces_app : forall s1 s2 t,
  traces (s1 ++ s2) t <-> exists t1 t2, t = t1 ++ t2 /\ traces s1 t1 /\ traces s2 t2.
Proof.
  induction s1 as [|g s1 IH]; intros s2 t; simpl.
  - split.
    + intro H. exists [], t. auto.
    + intros (t1 & t2 & -> & -> & H). exact H.
  - destruct g as [l|l].
    + split.
      * intros (u & -> & H). apply IH in H. destruct H as (t1 & t2 & -> & H1 & H2).
        exists (flat_map rule_evs l ++ t1), t2. split; [apply app_assoc|]. split; [|exact H2].
        exists t1. auto.
      * intros (t1 & t2 & -> & (u & -> & H1) & H2).
        exists (u ++ t2). split; [symmetry; apply app_assoc|].
        apply IH. exists u, t2. auto.
    + split.
      * intros (u1 & u & -> & Hi & H). apply IH in H. destruct H as (t1 & t2 & -> & H1 & H2).
        exists (u1 ++ t1), t2. split; [apply app_assoc|]. split; [|exact H2].
        exists u1, t1. auto.
      * intros (t1 & t2 & -> & (u1 & u & -> & Hi & H1) & H2).
        exists u1, (u ++ t2). split; [symmetry; apply app_assoc|]. split; [exact Hi|].
        apply IH. exists u, t2. auto.
Qed.

(* ---------- 6. every trace is a permutation of the executed rules' events ---------- *)
Lemma traces_perm : forall segs t,
  traces segs t -> Permutation t (flat_map rule_evs (executed segs)).
Proof.
  induction segs as [|g segs IH]; intros t H; simpl in H.
  - subst t. constructor.
  - unfold executed in *. simpl. rewrite flat_map_app. destruct g as [l|l]; simpl.
    + destruct H as (t2 & -> & H). apply Permutation_app_head. apply IH, H.
    + destruct H as (t1 & t2 & -> & Hi & H). apply Permutation_app.
      * apply interleave_perm in Hi. rewrite flat_map_concat_map. exact Hi.
      * apply IH, H.
Qed.

(* ---------- 7. a sequential stage has exactly one trace ---------- *)
Lemma traces_seq : forall l t, traces [Seq l] t <-> t = flat_map rule_evs l.
Proof.
  intros l t. simpl. split.
  - intros (t2 & -> & ->). apply app_nil_r.
  - intros ->. exists []. split; [symmetry; apply app_nil_r | reflexivity].
Qed.

(* ---------- 8. each thread is a subsequence of the interleaving ---------- *)
Inductive Subseq {A : Type} : list A -> list A -> Prop :=
| Sub_nil  : Subseq [] []
| Sub_skip : forall x l t, Subseq l t -> Subseq l (x :: t)
| Sub_take : forall x l t, Subseq l t -> Subseq (x :: l) (x :: t).

Lemma interleave_subseq : forall A (ls : list (list A)) t,
  Interleave ls t -> Forall (fun l => Subseq l t) ls.
Proof.
  intros A ls t H. induction H as [ls H | pre x l post t H IH].
  - eapply Forall_impl; [|exact H]. intros l ->. constructor.
  - apply Forall_app in IH. destruct IH as [Hpre Hrest].
    apply Forall_cons_iff in Hrest. destruct Hrest as [Hl Hpost].
    apply Forall_app. split.
    + eapply Forall_impl; [|exact Hpre]. intros a Ha. apply Sub_skip, Ha.
    + constructor.
      * apply Sub_take, Hl.
      * eapply Forall_impl; [|exact Hpost]. intros a Ha. apply Sub_skip, Ha.
Qed.

Lemma par_trace_brackets : forall l t r,
  traces [Par l] t -> In r l -> Subseq [St (en r); En (en r)] t.
Proof.
  intros l t r H Hr. simpl in H. destruct H as (t1 & t2 & -> & Hi & ->).
  rewrite app_nil_r. apply interleave_subseq in Hi.
  rewrite Forall_forall in Hi. apply (Hi (rule_evs r)). apply in_map, Hr.
Qed.

(* ---------- 9. non-vacuity: the sequential schedule is a trace ---------- *)
Lemma interleave_nil_cons : forall A (ls : list (list A)) t,
  Interleave ls t -> Interleave ([] :: ls) t.
Proof.
  intros A ls t H. induction H as [ls H | pre x l post t H IH].
  - apply IL_nil. constructor; auto.
  - apply (IL_cons ([] :: pre) x l post t). exact IH.
Qed.

Lemma interleave_concat : forall A (ls : list (list A)), Interleave ls (concat ls).
Proof.
  intros A. induction ls as [|l ls IH]; simpl.
  - apply IL_nil. constructor.
  - induction l as [|x l IHl]; simpl.
    + apply interleave_nil_cons, IH.
    + apply (IL_cons [] x l ls). exact IHl.
Qed.

Lemma traces_sequential : forall segs, traces segs (flat_map rule_evs (executed segs)).
Proof.
  induction segs as [|g segs IH]; simpl.
  - reflexivity.
  - unfold executed in *. simpl. rewrite flat_map_app. destruct g as [l|l]; simpl.
    + eexists. split; [reflexivity | exact IH].
    + eexists _, _. split; [reflexivity|]. split; [|exact IH].
      rewrite flat_map_concat_map. apply interleave_concat.
Qed.

Lemma traces_exists : forall segs, exists t, traces segs t.
Proof. intro segs. eexists. apply traces_sequential. Qed.

(* ---------- 10. the acceptor decides membership in the trace set ---------- *)

(* -- events -- *)
Lemma ev_eqb_eq : forall a b, ev_eqb a b = true <-> a = b.
Proof.
  intros [x|x] [y|y]; simpl; split; intro H; try discriminate.
  - apply String.eqb_eq in H. now subst.
  - injection H as ->. apply String.eqb_refl.
  - apply String.eqb_eq in H. now subst.
  - injection H as ->. apply String.eqb_refl.
Qed.

Lemma ev_eqb_refl : forall a, ev_eqb a a = true.
Proof. intro a. apply ev_eqb_eq. reflexivity. Qed.

Lemma list_ev_eqb_eq : forall a b, list_ev_eqb a b = true <-> a = b.
Proof.
  induction a as [|x a IH]; intros [|y b]; simpl; split; intro H; try discriminate; auto.
  - apply andb_prop in H. destruct H as [H1 H2].
    apply ev_eqb_eq in H1. apply IH in H2. now subst.
  - injection H as -> ->. rewrite ev_eqb_refl. simpl. apply IH. reflexivity.
Qed.

Lemma count_ev_app : forall e a b, count_ev e (a ++ b) = count_ev e a + count_ev e b.
Proof. intros e a b. induction a as [|x a IH]; simpl; [reflexivity | rewrite IH; lia]. Qed.

Lemma count_ev_perm : forall e t u, Permutation t u -> count_ev e t = count_ev e u.
Proof. intros e t u H. induction H; simpl; lia. Qed.

Lemma count_ev_pos_in : forall e t, count_ev e t <> 0 -> In e t.
Proof.
  intros e t. induction t as [|x t IH]; simpl; intro H.
  - congruence.
  - destruct (ev_eqb e x) eqn:E.
    + left. symmetry. apply ev_eqb_eq, E.
    + right. apply IH. simpl in H. exact H.
Qed.

(* equal length and equal counts on the events of [u] make [t] a permutation of [u] *)
Lemma count_ev_permutation : forall u t,
  length t = length u ->
  (forall e, In e u -> count_ev e t = count_ev e u) ->
  Permutation t u.
Proof.
  induction u as [|x u IH]; intros t Hlen Hc.
  - destruct t; [constructor | discriminate].
  - assert (Hin : In x t).
    { apply count_ev_pos_in. rewrite (Hc x (in_eq _ _)). simpl. rewrite ev_eqb_refl. lia. }
    apply in_split in Hin. destruct Hin as (t1 & t2 & ->).
    apply Permutation_sym, Permutation_cons_app, Permutation_sym. apply IH.
    + rewrite app_length in *. simpl in *. lia.
    + intros e He. specialize (Hc e (in_cons _ _ _ He)).
      rewrite count_ev_app in *. simpl in *. lia.
Qed.

Lemma length_rule_evs : forall l, length (flat_map rule_evs l) = 2 * length l.
Proof. induction l as [|r l IH]; simpl in *; lia. Qed.

Lemma firstn_skipn_app : forall A k (a b : list A),
  length a = k -> firstn k (a ++ b) = a /\ skipn k (a ++ b) = b.
Proof.
  intros A k a b <-. induction a as [|x a IH]; simpl.
  - destruct b; auto.
  - destruct IH as [H1 H2]. rewrite H1. auto.
Qed.

Lemma accepts_seq : forall l rest t,
  accepts (Seq l :: rest) t =
  (list_ev_eqb (firstn (2 * length l) t) (flat_map rule_evs l) && accepts rest (skipn (2 * length l) t))%bool.
Proof. reflexivity. Qed.

Lemma accepts_par : forall l rest t,
  accepts (Par l :: rest) t =
  (par_accepts l (firstn (2 * length l) t) && accepts rest (skipn (2 * length l) t))%bool.
Proof. reflexivity. Qed.

(* -- removing one occurrence of a name: the meaning of the inner [rm] loop -- *)
Fixpoint remove1 (n : string) (l : list string) : option (list string) :=
  match l with
  | [] => None
  | x :: l' =>
    if String.eqb x n then Some l'
    else match remove1 n l' with Some o => Some (x :: o) | None => None end
  end.

Lemma rm_spec : forall n t' l acc,
  (fix rm (l : list string) (acc : list string) : bool :=
     match l with
     | [] => false
     | x :: l' => if String.eqb x n then bracketed_from (rev acc ++ l') t' else rm l' (x :: acc)
     end) l acc =
  match remove1 n l with Some o => bracketed_from (rev acc ++ o) t' | None => false end.
Proof.
  intros n t'. induction l as [|x l IH]; intro acc; simpl.
  - reflexivity.
  - destruct (String.eqb x n); [reflexivity|].
    rewrite IH. destruct (remove1 n l); [|reflexivity].
    simpl. rewrite <- app_assoc. reflexivity.
Qed.

Lemma bracketed_En : forall open n t',
  bracketed_from open (En n :: t') =
  match remove1 n open with Some o => bracketed_from o t' | None => false end.
Proof. intros open n t'. exact (rm_spec n t' open []). Qed.

Lemma remove1_some : forall n l o, remove1 n l = Some o -> Permutation l (n :: o).
Proof.
  intros n. induction l as [|x l IH]; simpl; intros o H.
  - discriminate.
  - destruct (String.eqb x n) eqn:E.
    + apply String.eqb_eq in E. subst x. injection H as <-. apply Permutation_refl.
    + destruct (remove1 n l) as [o'|]; [|discriminate].
      injection H as <-. rewrite (IH o' eq_refl). apply perm_swap.
Qed.

Lemma remove1_in : forall n l, In n l -> exists o, remove1 n l = Some o.
Proof.
  intros n. induction l as [|x l IH]; simpl; intro H.
  - contradiction.
  - destruct (String.eqb x n) eqn:E; [eauto|].
    destruct H as [->|H]; [rewrite String.eqb_refl in E; discriminate|].
    destruct (IH H) as (o & ->). eauto.
Qed.

(* -- the state of a fan-out: every goroutine is finished, running, or not started -- *)
Definition shape (th : list ev) : Prop :=
  th = [] \/ (exists n, th = [En n]) \/ (exists n, th = [St n; En n]).

Definition pend (th : list ev) : list string :=
  match th with [En n] => [n] | _ => [] end.
Definition pending (ls : list (list ev)) : list string := flat_map pend ls.

Lemma pending_app : forall a b, pending (a ++ b) = pending a ++ pending b.
Proof. intros. apply flat_map_app. Qed.

Lemma shape_nil : shape [].
Proof. left. reflexivity. Qed.
Lemma shape_en : forall n, shape [En n].
Proof. intro n. right. left. eauto. Qed.
Lemma shape_sten : forall n, shape [St n; En n].
Proof. intro n. right. right. eauto. Qed.

Lemma shape_replace : forall pre th th' post,
  Forall shape (pre ++ th :: post) -> shape th' -> Forall shape (pre ++ th' :: post).
Proof.
  intros pre th th' post H Hs. apply Forall_app in H. destruct H as [H1 H2].
  apply Forall_cons_iff in H2. destruct H2 as [_ H2].
  apply Forall_app. split; [exact H1|]. constructor; assumption.
Qed.

Lemma shape_mid : forall pre th post, Forall shape (pre ++ th :: post) -> shape th.
Proof.
  intros pre th post H. apply Forall_app in H. destruct H as [_ H].
  apply Forall_cons_iff in H. tauto.
Qed.

Lemma shapes_rule_evs : forall l, Forall shape (map rule_evs l).
Proof. induction l; simpl; constructor; auto. apply shape_sten. Qed.

Lemma pending_rule_evs : forall l, pending (map rule_evs l) = [].
Proof. induction l; simpl; auto. Qed.

(* completeness of the bracket check *)
Lemma interleave_bracketed : forall ls t,
  Interleave ls t -> forall open,
  Forall shape ls -> Permutation open (pending ls) -> bracketed_from open t = true.
Proof.
  intros ls t H. induction H as [ls H | pre x l post t H IH]; intros open Hs Hp.
  - reflexivity.
  - pose proof (shape_mid _ _ _ Hs) as Hx.
    rewrite pending_app in Hp. simpl in Hp.
    destruct Hx as [Hx | [(n & Hx) | (n & Hx)]].
    + discriminate.
    + injection Hx as -> ->. simpl in Hp.
      rewrite bracketed_En.
      assert (Hin : In n open).
      { eapply Permutation_in; [apply Permutation_sym, Hp|]. apply in_or_app. right. left. reflexivity. }
      destruct (remove1_in _ _ Hin) as (o & Ho). rewrite Ho.
      apply IH.
      * eapply shape_replace; [exact Hs | apply shape_nil].
      * rewrite pending_app. simpl.
        apply remove1_some in Ho. rewrite Ho in Hp.
        apply Permutation_cons_app_inv in Hp. exact Hp.
    + injection Hx as -> ->. simpl in Hp. simpl.
      apply IH.
      * eapply shape_replace; [exact Hs | apply shape_en].
      * rewrite pending_app. simpl. apply Permutation_cons_app. exact Hp.
Qed.

Lemma par_complete : forall l t, Interleave (map rule_evs l) t -> par_accepts l t = true.
Proof.
  intros l t H. pose proof (interleave_perm _ _ _ H) as Hp.
  rewrite <- flat_map_concat_map in Hp.
  unfold par_accepts. apply andb_true_intro. split; [apply andb_true_intro; split|].
  - apply Nat.eqb_eq. rewrite (Permutation_length Hp). apply length_rule_evs.
  - apply forallb_forall. intros r _.
    rewrite !(count_ev_perm _ _ _ Hp), !Nat.eqb_refl. reflexivity.
  - apply (interleave_bracketed _ _ H).
    + apply shapes_rule_evs.
    + rewrite pending_rule_evs. constructor.
Qed.

Lemma traces_accepts : forall segs t, traces segs t -> accepts segs t = true.
Proof.
  induction segs as [|g segs IH]; intros t H.
  - simpl in H. subst t. reflexivity.
  - destruct g as [l|l]; simpl in H.
    + destruct H as (t2 & -> & H). rewrite accepts_seq.
      destruct (firstn_skipn_app _ (2 * length l) (flat_map rule_evs l) t2 (length_rule_evs l)) as [-> ->].
      apply andb_true_intro. split; [apply list_ev_eqb_eq; reflexivity | apply IH, H].
    + destruct H as (t1 & t2 & -> & Hi & H). rewrite accepts_par.
      assert (Hlen : length t1 = 2 * length l).
      { apply interleave_perm in Hi. rewrite (Permutation_length Hi).
        rewrite <- flat_map_concat_map. apply length_rule_evs. }
      destruct (firstn_skipn_app _ (2 * length l) t1 t2 Hlen) as [-> ->].
      apply andb_true_intro. split; [apply par_complete, Hi | apply IH, H].
Qed.

(* soundness of the bracket check *)
Lemma concat_nil_all : forall A (ls : list (list A)), concat ls = [] -> Forall (fun l => l = []) ls.
Proof.
  induction ls as [|l ls IH]; simpl; intro H.
  - constructor.
  - apply app_eq_nil in H. destruct H. constructor; auto.
Qed.

Lemma bracketed_interleave : forall t ls open,
  Forall shape ls -> Permutation t (concat ls) -> Permutation open (pending ls) ->
  bracketed_from open t = true -> Interleave ls t.
Proof.
  induction t as [|x t IH]; intros ls open Hs Hp Ho Hb.
  - apply IL_nil. apply concat_nil_all. apply Permutation_nil. exact Hp.
  - destruct x as [n|n].
    + (* a start: some goroutine has not started yet *)
      assert (Hin : In (St n) (concat ls)).
      { eapply Permutation_in; [exact Hp | left; reflexivity]. }
      apply in_concat in Hin. destruct Hin as (th & Hth & Hin).
      apply in_split in Hth. destruct Hth as (pre & post & ->).
      pose proof (shape_mid _ _ _ Hs) as Hx.
      destruct Hx as [-> | [(m & ->) | (m & ->)]].
      * destruct Hin.
      * destruct Hin as [Hin|[]]. discriminate.
      * destruct Hin as [Hin|[Hin|[]]]; [|discriminate]. injection Hin as ->.
        apply IL_cons. apply (IH _ (n :: open)).
        -- eapply shape_replace; [exact Hs | apply shape_en].
        -- rewrite concat_app in *. simpl in *.
           apply Permutation_cons_app_inv in Hp. exact Hp.
        -- rewrite pending_app in *. simpl in *. apply Permutation_cons_app. exact Ho.
        -- exact Hb.
    + (* an end: the name is open, so some goroutine is running it *)
      rewrite bracketed_En in Hb.
      destruct (remove1 n open) as [o|] eqn:Hr; [|discriminate].
      apply remove1_some in Hr.
      assert (Hin : In n (pending ls)).
      { eapply Permutation_in; [exact Ho|]. eapply Permutation_in; [apply Permutation_sym, Hr|]. left. reflexivity. }
      unfold pending in Hin. apply in_flat_map in Hin. destruct Hin as (th & Hth & Hin).
      apply in_split in Hth. destruct Hth as (pre & post & ->).
      pose proof (shape_mid _ _ _ Hs) as Hx.
      destruct Hx as [-> | [(m & ->) | (m & ->)]].
      * destruct Hin.
      * destruct Hin as [->|[]].
        apply IL_cons. apply (IH _ o).
        -- eapply shape_replace; [exact Hs | apply shape_nil].
        -- rewrite concat_app in *. simpl in *.
           apply Permutation_cons_app_inv in Hp. exact Hp.
        -- rewrite pending_app in *. simpl in *.
           rewrite Hr in Ho. apply Permutation_cons_app_inv in Ho. exact Ho.
        -- exact Hb.
      * destruct Hin.
Qed.

Lemma par_sound : forall l t, par_accepts l t = true -> Interleave (map rule_evs l) t.
Proof.
  intros l t H. unfold par_accepts in H.
  apply andb_prop in H. destruct H as [H Hb]. apply andb_prop in H. destruct H as [Hlen Hc].
  apply Nat.eqb_eq in Hlen. rewrite forallb_forall in Hc.
  apply (bracketed_interleave t _ []).
  - apply shapes_rule_evs.
  - rewrite <- flat_map_concat_map. apply count_ev_permutation.
    + rewrite length_rule_evs. exact Hlen.
    + intros e He. apply in_flat_map in He. destruct He as (r & Hr & He).
      specialize (Hc r Hr). apply andb_prop in Hc. destruct Hc as [H1 H2].
      apply Nat.eqb_eq in H1. apply Nat.eqb_eq in H2.
      destruct He as [<-|[<-|[]]]; assumption.
  - rewrite pending_rule_evs. constructor.
  - exact Hb.
Qed.

Lemma accepts_sound : forall segs t, accepts segs t = true -> traces segs t.
Proof.
  induction segs as [|g segs IH]; intros t H.
  - destruct t; [reflexivity | discriminate].
  - destruct g as [l|l].
    + rewrite accepts_seq in H. apply andb_prop in H. destruct H as [H1 H2].
      apply list_ev_eqb_eq in H1. simpl.
      exists (skipn (2 * length l) t). split; [|apply IH, H2].
      rewrite <- H1. symmetry. apply firstn_skipn.
    + rewrite accepts_par in H. apply andb_prop in H. destruct H as [H1 H2].
      simpl.
      exists (firstn (2 * length l) t), (skipn (2 * length l) t).
      split; [symmetry; apply firstn_skipn|]. split; [apply par_sound, H1 | apply IH, H2].
Qed.

Theorem accepts_iff_traces : forall segs t, accepts segs t = true <-> traces segs t.
Proof. intros. split; [apply accepts_sound | apply traces_accepts]. Qed.

Print Assumptions traces_accepts.
Print Assumptions accepts_sound.
