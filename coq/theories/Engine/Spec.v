(* Engine/Spec.v — the documented meaning of each execution model, written from the
   property texts (C04, C05, C11–C14) as a function from a configuration to the
   stages that run (in order), and the error flag. Definitions only. *)
From Coq Require Import String List ZArith Bool.
From GV Require Import Engine.IR Engine.Hand.
Import ListNotations.

Definition any_fail (l : list erule) : bool := existsb efail l.

(* drop empty stages *)
Definition ne (segs : list seg) : list seg :=
  filter (fun g => match g with Seq [] | Par [] => false | _ => true end) segs.

Definition seg_rules (g : seg) : list erule := match g with Seq l | Par l => l end.
Definition executed (segs : list seg) : list erule := flat_map seg_rules segs.

(* the result map: one entry per executed rule that reported the returned-flag, bound to the
   value that rule returned (None = nil, a bare [return]); a rule that runs again rebinds its key *)
Definition add_entry (m : rmap) (r : erule) : rmap :=
  if eret r then set_entry m (en r) (eval r) else m.
Definition result_entries (l : list erule) : rmap := fold_left add_entry l [].
Definition result_keys (l : list erule) : list string := map fst (result_entries l).
(* the key-level view of [add_entry] (Engine/Sound.v: [map fst (add_entry m r) = add_key (map fst m) r]) *)
Definition add_key (m : list string) (r : erule) : list string :=
  if eret r then (if existsb (String.eqb (en r)) m then m else m ++ [en r]) else m.

(* the rules a sorted (one at a time) stage runs: with stop-on-error (b = false) up to and
   including the first failing rule; with a stop tag up to and including the first rule
   after which the tag is set *)
Fixpoint sort_prefix (b tag stop : bool) (l : list erule) : list erule :=
  match l with
  | [] => []
  | r :: l' =>
    if (efail r && negb b)%bool then [r]
    else if (tag && (stop || estop r))%bool then [r]
    else r :: sort_prefix b tag (stop || estop r) l'
  end.

(* selection: the named rules that exist, in the order of the names, once per occurrence *)
Definition sel (c : cfg) (names : list string) : list erule :=
  flat_map (fun n => match find_rule n (c_rules c) with Some r => [r] | None => [] end) names.
Definition all_known (c : cfg) (names : list string) : bool :=
  forallb (fun n => match find_rule n (c_rules c) with Some _ => true | None => false end) names.

Definition sorted_stage (b tag : bool) (c : cfg) (l : list erule) : list seg * bool :=
  let p := sort_prefix b tag (c_stop0 c) l in (ne [Seq p], any_fail p).

Definition mix_stage (tag : bool) (c : cfg) (l : list erule) : list seg * bool :=
  match l with
  | [] => ([], true)
  | r0 :: rest =>
    if efail r0 then ([Seq [r0]], true)
    else if (tag && (c_stop0 c || estop r0))%bool then ([Seq [r0]], false)
    else (ne [Seq [r0]; Par rest], any_fail rest)
  end.

Definition inverse_stage (c : cfg) (l : list erule) : list seg * bool :=
  match l with
  | [] => ([], true)
  | _ =>
    if Nat.leb (length l) 2 then sorted_stage false false c l
    else let init := removelast l in
         let lst := last l (mkER "" 0 false false false None) in
         if any_fail init then ([Par init], true)
         else ([Par init; Seq [lst]], efail lst)
  end.

Inductive nm_kind := SortConc | ConcSort | ConcConc.

Definition nm_stage (k : nm_kind) (c : cfg) (l : list erule) : list seg * bool :=
  let n := Z.to_nat (c_n c) in let m := Z.to_nat (c_m c) in
  let w1 := firstn n l in let w2 := firstn m (skipn n l) in
  let b := c_b c in
  match k with
  | SortConc =>
    if b then (ne [Seq w1; Par w2], any_fail (w1 ++ w2))
    else if any_fail w1 then (ne [Seq (sort_prefix false false false w1)], true)
    else (ne [Seq w1; Par w2], any_fail w2)
  | ConcSort =>
    if b then (ne [Par w1; Seq w2], any_fail (w1 ++ w2))
    else if any_fail w1 then (ne [Par w1], true)
    else (ne [Par w1; Seq (sort_prefix false false false w2)], any_fail w2)
  | ConcConc =>
    if b then (ne [Par w1; Par w2], any_fail (w1 ++ w2))
    else if any_fail w1 then (ne [Par w1], true)
    else (ne [Par w1; Par w2], any_fail w2)
  end.

Definition nm_valid (c : cfg) : bool :=
  (Z.ltb 0 (c_n c) && Z.ltb 0 (c_m c) && Z.leb (c_n c + c_m c) (zlen (c_rules c)))%bool.
Definition nm_sel_valid (c : cfg) : bool :=
  (nm_valid c && Z.eqb (c_n c + c_m c) (zlen (c_names c)) && all_known c (c_names c))%bool.

Fixpoint dag_stage (c : cfg) (layers : list (list string)) : list seg * bool :=
  match layers with
  | [] => ([], false)
  | ly :: rest =>
    let l := sel c ly in
    if any_fail l then (ne [Par l], true)
    else let '(s, e) := dag_stage c rest in (ne [Par l] ++ s, e)
  end.

Definition is_nil {A} (l : list A) : bool := match l with [] => true | _ => false end.

(* the stages that run and whether the call returns an error *)
Definition spec (e : entry) (c : cfg) : list seg * bool :=
  let rs := c_rules c in
  let b := c_b c in
  let s := sel c (c_names c) in
  match e with
  | EExecute => if is_nil rs then ([], true) else sorted_stage b false c rs
  | EExecuteWithStopTagDirect => if is_nil rs then ([], true) else sorted_stage b true c rs
  | EExecuteConcurrent => if is_nil rs then ([], true) else ([Par rs], any_fail rs)
  | EExecuteMixModel => mix_stage false c rs
  | EExecuteMixModelWithStopTagDirect => mix_stage true c rs
  | EExecuteSelectedRules => if is_nil s then ([], true) else sorted_stage true false c (sort_desc s)
  | EExecuteSelectedRulesWithControl => if is_nil s then ([], true) else sorted_stage b false c (sort_desc s)
  | EExecuteSelectedRulesWithControlAsGivenSortedName => if is_nil s then ([], true) else sorted_stage b false c s
  | EExecuteSelectedRulesWithControlAndStopTag => if is_nil s then ([], true) else sorted_stage b true c (sort_desc s)
  | EExecuteSelectedRulesWithControlAndStopTagAsGivenSortedName => if is_nil s then ([], true) else sorted_stage b true c s
  | EExecuteSelectedRulesConcurrent =>
    match s with
    | [] => ([], true)
    | [r] => ([Seq [r]], efail r)
    | _ => ([Par s], any_fail s)
    end
  | EExecuteSelectedRulesMixModel =>
    match s with
    | [] => ([], true)
    | [r] => ([Seq [r]], efail r)
    | [_; _] => sorted_stage false false c (sort_desc s)
    | _ => mix_stage false c (sort_desc s)
    end
  | EExecuteInverseMixModel => inverse_stage c rs
  | EExecuteSelectedRulesInverseMixModel => inverse_stage c (sort_desc s)
  | EExecuteNSortMConcurrent => if nm_valid c then nm_stage SortConc c rs else ([], true)
  | EExecuteNConcurrentMSort => if nm_valid c then nm_stage ConcSort c rs else ([], true)
  | EExecuteNConcurrentMConcurrent => if nm_valid c then nm_stage ConcConc c rs else ([], true)
  | EExecuteSelectedNSortMConcurrent => if nm_sel_valid c then nm_stage SortConc c (sort_desc s) else ([], true)
  | EExecuteSelectedNConcurrentMSort => if nm_sel_valid c then nm_stage ConcSort c (sort_desc s) else ([], true)
  | EExecuteSelectedNConcurrentMConcurrent => if nm_sel_valid c then nm_stage ConcConc c (sort_desc s) else ([], true)
  | EExecuteDAGModel => dag_stage c (c_layers c)
  end.

Definition spec_outcome (e : entry) (c : cfg) : outcome :=
  let '(segs, err) := spec e c in
  mkOut segs err (if err then RetErr else RetNil) (Some (result_entries (executed segs))).

(* ---------- boolean equality of outcomes, used by the correspondence run ---------- *)
Definition oz_eqb (a b : option Z) : bool :=
  match a, b with
  | None, None => true
  | Some x, Some y => Z.eqb x y
  | _, _ => false
  end.
Definition erule_eqb (a b : erule) : bool :=
  (String.eqb (en a) (en b) && Z.eqb (esal a) (esal b) && Bool.eqb (efail a) (efail b)
   && Bool.eqb (eret a) (eret b) && Bool.eqb (estop a) (estop b) && oz_eqb (eval a) (eval b))%bool.

Fixpoint list_eqb {A} (eqb : A -> A -> bool) (a b : list A) : bool :=
  match a, b with
  | [], [] => true
  | x :: a', y :: b' => eqb x y && list_eqb eqb a' b'
  | _, _ => false
  end.
Definition seg_eqb (a b : seg) : bool :=
  match a, b with
  | Seq x, Seq y | Par x, Par y => list_eqb erule_eqb x y
  | _, _ => false
  end.
Definition status_eqb (a b : status) : bool :=
  match a, b with
  | Running, Running | RetNil, RetNil | RetErr, RetErr | Crash, Crash | Stuck, Stuck | Unmodelled, Unmodelled => true
  | _, _ => false
  end.
Definition entry_eqb (a b : string * option Z) : bool :=
  (String.eqb (fst a) (fst b) && oz_eqb (snd a) (snd b))%bool.
Definition omap_eqb (a b : option rmap) : bool :=
  match a, b with
  | None, None => true
  | Some x, Some y => list_eqb entry_eqb x y
  | _, _ => false
  end.
Definition outcome_eqb (a b : outcome) : bool :=
  (list_eqb seg_eqb (o_segs a) (o_segs b) && Bool.eqb (o_err a) (o_err b) &&
   status_eqb (o_stat a) (o_stat b) && omap_eqb (o_map a) (o_map b))%bool.

Definition all_entries : list entry :=
  [EExecute; EExecuteWithStopTagDirect; EExecuteConcurrent; EExecuteMixModel;
   EExecuteMixModelWithStopTagDirect; EExecuteSelectedRules; EExecuteSelectedRulesWithControl;
   EExecuteSelectedRulesWithControlAsGivenSortedName; EExecuteSelectedRulesWithControlAndStopTag;
   EExecuteSelectedRulesWithControlAndStopTagAsGivenSortedName; EExecuteSelectedRulesConcurrent;
   EExecuteSelectedRulesMixModel; EExecuteInverseMixModel; EExecuteSelectedRulesInverseMixModel;
   EExecuteNSortMConcurrent; EExecuteNConcurrentMSort; EExecuteNConcurrentMConcurrent;
   EExecuteSelectedNSortMConcurrent; EExecuteSelectedNConcurrentMSort;
   EExecuteSelectedNConcurrentMConcurrent; EExecuteDAGModel].
