(* Engine/Trace.v — from stages to traces: the set of globally sequenced
   start/end traces a stage list can produce, over EVERY goroutine interleaving. *)
From Coq Require Import String List ZArith Bool.
From GV Require Import Engine.IR Engine.Spec.
Import ListNotations.

Inductive ev := St (n : string) | En (n : string).
Definition ev_eqb (a b : ev) : bool :=
  match a, b with
  | St x, St y | En x, En y => String.eqb x y
  | _, _ => false
  end.

Definition rule_evs (r : erule) : list ev := [St (en r); En (en r)].

(* t is an interleaving of the threads ls (each thread's order preserved) *)
Inductive Interleave {A : Type} : list (list A) -> list A -> Prop :=
| IL_nil  : forall ls, Forall (fun l => l = []) ls -> Interleave ls []
| IL_cons : forall pre x l post t,
    Interleave (pre ++ l :: post) t -> Interleave (pre ++ (x :: l) :: post) (x :: t).

Fixpoint traces (segs : list seg) (t : list ev) : Prop :=
  match segs with
  | [] => t = []
  | Seq l :: rest => exists t2, t = flat_map rule_evs l ++ t2 /\ traces rest t2
  | Par l :: rest => exists t1 t2, t = t1 ++ t2 /\ Interleave (map rule_evs l) t1 /\ traces rest t2
  end.

(* ---------- executable acceptance of an observed trace ---------- *)
Fixpoint count_ev (e : ev) (t : list ev) : nat :=
  match t with [] => 0 | x :: t' => (if ev_eqb e x then 1 else 0) + count_ev e t' end.

(* every prefix has at least as many starts as ends of each name *)
Fixpoint bracketed_from (open : list string) (t : list ev) : bool :=
  match t with
  | [] => true
  | St n :: t' => bracketed_from (n :: open) t'
  | En n :: t' =>
    (fix rm (l : list string) (acc : list string) : bool :=
       match l with
       | [] => false
       | x :: l' => if String.eqb x n then bracketed_from (rev acc ++ l') t' else rm l' (x :: acc)
       end) open []
  end.

Definition par_accepts (l : list erule) (t : list ev) : bool :=
  (Nat.eqb (length t) (2 * length l) &&
   forallb (fun r => Nat.eqb (count_ev (St (en r)) t) (count_ev (St (en r)) (flat_map rule_evs l)) &&
                     Nat.eqb (count_ev (En (en r)) t) (count_ev (En (en r)) (flat_map rule_evs l))) l &&
   bracketed_from [] t)%bool.

Fixpoint list_ev_eqb (a b : list ev) : bool :=
  match a, b with
  | [], [] => true
  | x :: a', y :: b' => ev_eqb x y && list_ev_eqb a' b'
  | _, _ => false
  end.

Fixpoint accepts (segs : list seg) (t : list ev) : bool :=
  match segs with
  | [] => match t with [] => true | _ => false end
  | Seq l :: rest =>
    let k := 2 * length l in
    list_ev_eqb (firstn k t) (flat_map rule_evs l) && accepts rest (skipn k t)
  | Par l :: rest =>
    let k := 2 * length l in
    par_accepts l (firstn k t) && accepts rest (skipn k t)
  end.
