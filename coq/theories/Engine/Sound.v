(* Engine/Sound.v — the 21 hand-written IR programs of Engine/Hand.v compute, for every
   configuration, exactly the documented outcome of Engine/Spec.v. *)
From Coq Require Import String List ZArith Bool Lia ZifyBool Permutation.
From GV Require Import Engine.IR Engine.Hand Engine.Spec.
Import ListNotations.

Set Implicit Arguments.

(* ------------------------------------------------------------------ *)
(* sort_desc is a stable descending sort *)
Fixpoint sorted_desc_e (l : list erule) : Prop :=
  match l with
  | [] => True
  | x :: l' => (forall y, In y l' -> (esal y <= esal x)%Z) /\ sorted_desc_e l'
  end.

Lemma insert_desc_perm r l : Permutation (insert_desc r l) (r :: l).
Proof.
  induction l as [|x l IH]; cbn [insert_desc]; [reflexivity|].
  destruct (Z.leb (esal x) (esal r)); [reflexivity|].
  rewrite IH. apply perm_swap.
Qed.

Lemma sort_desc_perm : forall l, Permutation (sort_desc l) l.
Proof.
  induction l as [|r l IH]; [reflexivity|].
  change (sort_desc (r :: l)) with (insert_desc r (sort_desc l)).
  rewrite insert_desc_perm. now constructor.
Qed.

Lemma sort_desc_length l : length (sort_desc l) = length l.
Proof. apply Permutation_length, sort_desc_perm. Qed.

Lemma insert_desc_sorted r l : sorted_desc_e l -> sorted_desc_e (insert_desc r l).
Proof.
  induction l as [|x l IH]; cbn [insert_desc sorted_desc_e].
  - intros _. split; [intros y []|exact I].
  - intros [Hx Hl]. destruct (Z.leb (esal x) (esal r)) eqn:E; cbn [sorted_desc_e].
    + split; [|split; assumption].
      intros y [<-|Hy]; [lia|]. specialize (Hx y Hy). lia.
    + split; [|apply IH; assumption].
      intros y Hy. apply (Permutation_in _ (insert_desc_perm r l)) in Hy.
      destruct Hy as [<-|Hy]; [lia|]. apply Hx, Hy.
Qed.

Lemma sort_desc_sorted : forall l, sorted_desc_e (sort_desc l).
Proof.
  induction l as [|r l IH]; [exact I|].
  change (sort_desc (r :: l)) with (insert_desc r (sort_desc l)).
  apply insert_desc_sorted, IH.
Qed.

Lemma insert_desc_filter s r l :
  filter (fun r => Z.eqb (esal r) s) (insert_desc r l) = filter (fun r => Z.eqb (esal r) s) (r :: l).
Proof.
  induction l as [|x l IH]; cbn [insert_desc]; [reflexivity|].
  destruct (Z.leb (esal x) (esal r)) eqn:E; [reflexivity|].
  cbn [filter] in *. rewrite IH.
  destruct (Z.eqb (esal x) s) eqn:Ex, (Z.eqb (esal r) s) eqn:Er; try reflexivity. lia.
Qed.

(* stability: rules of equal salience keep their relative order *)
Lemma sort_desc_stable : forall l s,
  filter (fun r => Z.eqb (esal r) s) (sort_desc l) = filter (fun r => Z.eqb (esal r) s) l.
Proof.
  intros l s. induction l as [|r l IH]; [reflexivity|].
  change (sort_desc (r :: l)) with (insert_desc r (sort_desc l)).
  rewrite insert_desc_filter. cbn [filter]. now rewrite IH.
Qed.

(* ------------------------------------------------------------------ *)
(* exec equations: the nested [exec_list] inside [exec] is the top-level one *)
Section ExecEqs.
  Variable c : cfg.

  Lemma ex_guard g s : exec c (IGuard g) s = if eval_guard c s g then set_stat s RetErr else s.
  Proof. reflexivity. Qed.
  Lemma ex_cond k body s : exec c (ICond k body) s = if eval_cond c s k then exec_list c body s else s.
  Proof. reflexivity. Qed.
  Lemma ex_ifns body s : exec c (IIfNotStopped body) s = if st_stop s then s else exec_list c body s.
  Proof. reflexivity. Qed.
  Lemma ex_for body s :
    exec c (IForLayers body) s =
    fold_left (fun s layer => match st_stat s with
                              | Running => exec_list c body (set_names s layer)
                              | _ => s end) (c_layers c) s.
  Proof. reflexivity. Qed.

  Lemma el_nil s : exec_list c [] s = s.
  Proof. reflexivity. Qed.
  Lemma el_cons i l s :
    exec_list c (i :: l) s = match st_stat s with Running => exec_list c l (exec c i s) | _ => s end.
  Proof. reflexivity. Qed.
  Lemma el_halt l s : st_stat s <> Running -> exec_list c l s = s.
  Proof. destruct l; cbn [exec_list]; [reflexivity|]. destruct (st_stat s); congruence. Qed.
  Lemma el_app a b s : exec_list c (a ++ b) s = exec_list c b (exec_list c a s).
  Proof.
    revert s; induction a as [|i a IH]; intro s; [reflexivity|].
    cbn [app]. rewrite !el_cons.
    destruct (st_stat s) eqn:E; try apply IH; symmetry; apply el_halt; congruence.
  Qed.
End ExecEqs.

(* ------------------------------------------------------------------ *)
(* result entries *)
Lemma result_entries_app a b : result_entries (a ++ b) = fold_left add_entry b (result_entries a).
Proof. unfold result_entries. apply fold_left_app. Qed.

Lemma add_result_some loc names errs stop segs m st r :
  add_result (mkSt loc names errs stop segs (Some m) st) r =
  mkSt loc names errs stop segs (Some (add_entry m r)) st.
Proof. unfold add_result, add_entry. destruct (eret r); reflexivity. Qed.

(* the keys of the entries evolve as the old key-only model did *)
Lemma set_entry_keys m n v :
  map fst (set_entry m n v) = if existsb (String.eqb n) (map fst m) then map fst m else map fst m ++ [n].
Proof.
  induction m as [|[k w] m IH]; [reflexivity|]. cbn [set_entry map fst existsb].
  rewrite (String.eqb_sym n k). destruct (String.eqb k n); cbn [orb map fst]; [reflexivity|].
  rewrite IH. destruct (existsb _ _); reflexivity.
Qed.

Lemma add_entry_keys m r : map fst (add_entry m r) = add_key (map fst m) r.
Proof. unfold add_entry, add_key. destruct (eret r); [apply set_entry_keys | reflexivity]. Qed.

Lemma fold_add_entry_keys l : forall m, map fst (fold_left add_entry l m) = fold_left add_key l (map fst m).
Proof.
  induction l as [|r l IH]; intro m; [reflexivity|].
  cbn [fold_left]. now rewrite IH, add_entry_keys.
Qed.

Lemma result_keys_fold l : result_keys l = fold_left add_key l [].
Proof. unfold result_keys, result_entries. apply fold_add_entry_keys. Qed.

(* the effective continue-on-error flag of a policy *)
Definition eff (p : pol) (b : bool) : bool :=
  match p with Collect => true | StopFirst => false | _ => b end.

Lemma seq_run_char b p tag l : p <> ReturnAlways ->
  forall loc names errs stop segs m,
  seq_run b p tag l (mkSt loc names errs stop segs (Some m) Running) =
  let pre := sort_prefix (eff p b) tag stop l in
  (pre, mkSt loc names (errs || (eff p b && any_fail pre)) (stop || existsb estop pre) segs
             (Some (fold_left add_entry pre m))
             (if (negb (eff p b) && any_fail pre)%bool then RetErr else Running)).
Proof.
  intros Hp. induction l as [|r l IH]; intros loc names errs stop segs m.
  - cbn. rewrite !andb_false_r, !orb_false_r. reflexivity.
  - cbn [seq_run]. rewrite add_result_some. cbn [st_local st_names st_errs st_stop st_segs st_map st_stat].
    cbn [sort_prefix].
    destruct p; try congruence; cbn [eff] in *;
      destruct (efail r) eqn:Ef; try destruct b;
      cbn [set_stat st_local st_names st_errs st_stop st_segs st_map st_stat andb negb orb];
      try (destruct (tag && (stop || estop r))%bool eqn:Et; [|rewrite IH]);
      cbn [any_fail existsb fold_left andb orb negb]; rewrite ?Ef;
      cbn [andb orb negb]; rewrite ?orb_false_r, ?orb_true_r, ?andb_false_r, ?orb_assoc; try reflexivity.
Qed.

Lemma fold_add_result_some l : forall loc names errs stop segs m st,
  fold_left add_result l (mkSt loc names errs stop segs (Some m) st) =
  mkSt loc names errs stop segs (Some (fold_left add_entry l m)) st.
Proof.
  induction l as [|r l IH]; intros; [reflexivity|].
  cbn [fold_left]. rewrite add_result_some. apply IH.
Qed.

Lemma par_run_char l loc names errs stop segs m st :
  par_run l (mkSt loc names errs stop segs (Some m) st) =
  mkSt loc names (errs || any_fail l) (stop || existsb estop l) segs (Some (fold_left add_entry l m)) st.
Proof. unfold par_run. rewrite fold_add_result_some. reflexivity. Qed.

(* ------------------------------------------------------------------ *)
(* stage lists *)
Lemma ne_app a b : ne (a ++ b) = ne a ++ ne b.
Proof. apply filter_app. Qed.
Lemma ne_cons g l : ne (g :: l) = ne [g] ++ ne l.
Proof. apply (ne_app [g] l). Qed.
Lemma executed_app a b : executed (a ++ b) = executed a ++ executed b.
Proof. apply flat_map_app. Qed.
Lemma executed_ne l : executed (ne l) = executed l.
Proof.
  induction l as [|g l IH]; [reflexivity|].
  unfold executed, ne in *.
  destruct g as [[|x k]|[|x k]]; cbn [filter flat_map seg_rules app]; rewrite ?IH; reflexivity.
Qed.
Lemma seq_tail_ne ran : match ran with [] => [] | _ => [Seq ran] end = ne [Seq ran].
Proof. destruct ran; reflexivity. Qed.
Lemma rk_seq segs l :
  fold_left add_entry l (result_entries (executed segs)) = result_entries (executed (segs ++ ne [Seq l])).
Proof. rewrite executed_app, executed_ne, result_entries_app. cbn. now rewrite app_nil_r. Qed.
Lemma rk_par segs l :
  fold_left add_entry l (result_entries (executed segs)) = result_entries (executed (segs ++ ne [Par l])).
Proof. rewrite executed_app, executed_ne, result_entries_app. cbn. now rewrite app_nil_r. Qed.

(* ------------------------------------------------------------------ *)
(* canonical states: the result map holds exactly the entries of the executed stages *)
Notation rk segs := (Some (result_entries (executed segs))).

Definition bl (c : cfg) (b : base) (loc : list erule) : list erule :=
  match b with BLocal => loc | _ => c_rules c end.

Lemma ex_seq c b w p tag loc names errs stop segs l :
  p <> ReturnAlways ->
  window c (bl c b loc) w = Some l ->
  exec c (ISeq b w p tag) (mkSt loc names errs stop segs (rk segs) Running) =
  let pre := sort_prefix (eff p (c_b c)) tag stop l in
  mkSt loc names (errs || (eff p (c_b c) && any_fail pre)) (stop || existsb estop pre)
       (segs ++ ne [Seq pre]) (rk (segs ++ ne [Seq pre]))
       (if (negb (eff p (c_b c)) && any_fail pre)%bool then RetErr else Running).
Proof.
  intros Hp Hw. cbn [exec].
  replace (base_list c _ b) with (bl c b loc) by (destruct b; reflexivity).
  rewrite Hw, seq_run_char by assumption. cbv zeta.
  cbn [st_local st_names st_errs st_stop st_segs st_map st_stat].
  rewrite seq_tail_ne, rk_seq. reflexivity.
Qed.

Lemma ex_par c b w k loc names errs stop segs l :
  window c (bl c b loc) w = Some l ->
  count c (bl c b loc) k = zlen l ->
  exec c (IPar b w k true) (mkSt loc names errs stop segs (rk segs) Running) =
  mkSt loc names (errs || any_fail l) (stop || existsb estop l)
       (segs ++ ne [Par l]) (rk (segs ++ ne [Par l])) Running.
Proof.
  intros Hw Hc. cbn [exec].
  replace (base_list c _ b) with (bl c b loc) by (destruct b; reflexivity).
  rewrite Hw, Hc, Z.eqb_refl. cbn [negb]. rewrite par_run_char.
  cbn [st_stat]. rewrite rk_par.
  destruct l; cbn [push_seg ne filter]; rewrite ?app_nil_r; reflexivity.
Qed.

(* ------------------------------------------------------------------ *)
(* what a finished call must look like *)
Definition fin (s : mstate) (r : list seg * bool) : Prop :=
  st_segs s = fst r /\ st_stat s = (if snd r then RetErr else RetNil) /\ st_map s = rk (fst r).

Lemma fin_sound e c :
  fin (exec_list c (hand e) (init_state c)) (spec e c) -> run_prog (hand e) c = spec_outcome e c.
Proof.
  unfold run_prog, spec_outcome, fin. destruct (spec e c) as [segs err]. cbn [fst snd].
  intros (H1 & H2 & H3). rewrite H1, H2, H3. destruct err; reflexivity.
Qed.

Lemma fin_mk loc names errs stop segs (err : bool) :
  fin (mkSt loc names errs stop segs (rk segs) (if err then RetErr else RetNil)) (segs, err).
Proof. repeat split. Qed.

(* ------------------------------------------------------------------ *)
(* sort_prefix facts *)
Lemma sort_prefix_true_notag s l : sort_prefix true false s l = l.
Proof.
  revert s; induction l as [|r l IH]; intro s; [reflexivity|].
  cbn [sort_prefix]. rewrite andb_false_r. cbn [andb]. now rewrite IH.
Qed.
Lemma sort_prefix_notag b s s' l : sort_prefix b false s l = sort_prefix b false s' l.
Proof.
  revert s s'; induction l as [|r l IH]; intros s s'; [reflexivity|].
  cbn [sort_prefix andb]. now rewrite (IH (s || estop r)%bool (s' || estop r)%bool).
Qed.
Lemma any_fail_prefix s l : any_fail (sort_prefix false false s l) = any_fail l.
Proof.
  revert s; induction l as [|r l IH]; intro s; [reflexivity|].
  cbn [sort_prefix andb negb any_fail existsb]. rewrite andb_true_r.
  destruct (efail r) eqn:E; cbn [any_fail existsb]; rewrite E; [reflexivity|].
  cbn [orb]. apply IH.
Qed.
Lemma sort_prefix_nofail b s l : any_fail l = false -> sort_prefix b false s l = l.
Proof.
  revert s; induction l as [|r l IH]; intro s; [reflexivity|].
  cbn [any_fail existsb]. intros H. apply orb_false_elim in H. destruct H as [H1 H2].
  cbn [sort_prefix andb]. rewrite H1. cbn [andb]. now rewrite IH.
Qed.

Ltac st_simp :=
  unfold set_stat, set_local, set_names;
  cbn [st_local st_names st_errs st_stop st_segs st_map st_stat set_stat set_local set_names
       andb orb negb].
Ltac step := rewrite el_cons; cbn [st_stat].

Lemma tail_fin c loc names errs stop segs :
  fin (exec_list c [IFailIfErrs; IRetNil] (mkSt loc names errs stop segs (rk segs) Running)) (segs, errs).
Proof.
  step. cbn [exec]. st_simp. destruct errs; cbn [exec_list exec]; st_simp; repeat split.
Qed.

Ltac fin_done :=
  first [ apply tail_fin
        | rewrite el_halt by (cbn [st_stat]; congruence); repeat split; reflexivity
        | cbn [exec_list exec st_stat]; st_simp; repeat split; reflexivity ].

Lemma sort_loop_fin c b p tag loc names stop segs :
  p <> ReturnAlways ->
  let pre := sort_prefix (eff p (c_b c)) tag stop (bl c b loc) in
  fin (exec_list c (sort_loop b p tag) (mkSt loc names false stop segs (rk segs) Running))
      (segs ++ ne [Seq pre], any_fail pre).
Proof.
  intros Hp pre. unfold sort_loop. step.
  erewrite ex_seq by (assumption || reflexivity). cbv zeta. fold pre.
  destruct (eff p (c_b c)), (any_fail pre) eqn:E; st_simp; fin_done.
Qed.

(* ------------------------------------------------------------------ *)
(* entries *)
Lemma reset_ok c rest :
  exec_list c (IGuard GNilBuilder :: IReset :: rest) (init_state c) =
  exec_list c rest (mkSt [] (c_names c) false (c_stop0 c) [] (rk []) Running).
Proof. reflexivity. Qed.

Lemma Execute_sorted_ok c tag :
  fin (exec_list c ([IGuard GNilBuilder; IReset; IGuard GEmptySorted] ++ sort_loop BSorted ByFlag tag) (init_state c))
      (if is_nil (c_rules c) then ([], true) else sorted_stage (c_b c) tag c (c_rules c)).
Proof.
  cbn [app]. rewrite reset_ok. step. cbn [exec eval_guard].
  pose proof (@sort_loop_fin c BSorted ByFlag tag [] (c_names c) (c_stop0 c) []) as H.
  cbv zeta in H. cbn [bl eff app] in H.
  destruct (c_rules c) eqn:E; st_simp; cbn [is_nil].
  - fin_done.
  - apply H. discriminate.
Qed.

Lemma ExecuteConcurrent_ok c :
  fin (exec_list c ExecuteConcurrent (init_state c)) (spec EExecuteConcurrent c).
Proof.
  unfold ExecuteConcurrent. rewrite reset_ok. step. cbn [exec eval_guard spec].
  destruct (c_rules c) eqn:E; st_simp; cbn [is_nil].
  - fin_done.
  - step. erewrite ex_par; [| cbn [bl window]; rewrite E; reflexivity | cbn [bl count]; rewrite E; reflexivity ].
    cbn [app ne filter orb]. fin_done.
Qed.

Lemma zlen_cons {A} (x : A) l : (zlen (x :: l) - 1 = zlen l)%Z.
Proof. unfold zlen. cbn [length]. lia. Qed.

Definition par_rest_state r0 rest names errs stop segs :=
  mkSt (r0 :: rest) names (errs || any_fail rest) (stop || existsb estop rest)
       (segs ++ ne [Par rest]) (rk (segs ++ ne [Par rest])) Running.

Lemma par_from1 c r0 rest names errs stop segs :
  exec c (IPar BLocal WFrom1 CLenMinus1 true) (mkSt (r0 :: rest) names errs stop segs (rk segs) Running) =
  par_rest_state r0 rest names errs stop segs.
Proof.
  erewrite ex_par; [reflexivity | reflexivity |]. cbn [bl count]. apply zlen_cons.
Qed.

Lemma par_from1_cond c r0 rest names errs stop segs :
  exec c (ICond (LenGe 2) [IPar BLocal WFrom1 CLenMinus1 true])
       (mkSt (r0 :: rest) names errs stop segs (rk segs) Running) =
  par_rest_state r0 rest names errs stop segs.
Proof.
  rewrite ex_cond. destruct rest as [|r1 rest].
  - cbn [eval_cond st_local length Nat.leb]. unfold par_rest_state.
    cbn [any_fail existsb ne filter]. now rewrite !orb_false_r, app_nil_r.
  - cbn [eval_cond st_local length Nat.leb]. step. rewrite par_from1. reflexivity.
Qed.

Lemma par_from1_ifns c r0 rest names errs stop segs :
  exec c (IIfNotStopped [ICond (LenGe 2) [IPar BLocal WFrom1 CLenMinus1 true]])
       (mkSt (r0 :: rest) names errs stop segs (rk segs) Running) =
  if stop then mkSt (r0 :: rest) names errs stop segs (rk segs) Running
  else par_rest_state r0 rest names errs stop segs.
Proof.
  rewrite ex_ifns. cbn [st_stop]. destruct stop; [reflexivity|].
  step. rewrite par_from1_cond. reflexivity.
Qed.

Lemma mix_fin c tag mid r0 rest names :
  (forall errs stop segs,
      exec c mid (mkSt (r0 :: rest) names errs stop segs (rk segs) Running) =
      if (tag && stop)%bool then mkSt (r0 :: rest) names errs stop segs (rk segs) Running
      else par_rest_state r0 rest names errs stop segs) ->
  fin (exec_list c [ISeq BLocal WIdx0 StopFirst false; mid; IFailIfErrs; IRetNil]
                 (mkSt (r0 :: rest) names false (c_stop0 c) [] (rk []) Running))
      (mix_stage tag c (r0 :: rest)).
Proof.
  intros Hmid. step. erewrite ex_seq; [| discriminate | reflexivity].
  cbv zeta. cbn [eff sort_prefix andb negb]. rewrite andb_true_r.
  cbn [mix_stage].
  destruct (efail r0) eqn:Ef; cbn [any_fail existsb]; rewrite Ef; st_simp; cbn [ne filter app].
  - fin_done.
  - step. rewrite Hmid. rewrite !orb_false_r.
    destruct (tag && (c_stop0 c || estop r0))%bool eqn:Et.
    + fin_done.
    + unfold par_rest_state. cbn [orb app]. fin_done.
Qed.

Lemma mix_entry_ok c tag mid :
  (forall r0 rest names errs stop segs,
      exec c mid (mkSt (r0 :: rest) names errs stop segs (rk segs) Running) =
      if (tag && stop)%bool then mkSt (r0 :: rest) names errs stop segs (rk segs) Running
      else par_rest_state r0 rest names errs stop segs) ->
  fin (exec_list c [IGuard GNilBuilder; IReset; IGuard GEmptySorted; ILet BSorted;
                    ISeq BLocal WIdx0 StopFirst false; mid; IFailIfErrs; IRetNil] (init_state c))
      (mix_stage tag c (c_rules c)).
Proof.
  intros Hmid. rewrite reset_ok. step. cbn [exec eval_guard].
  destruct (c_rules c) as [|r0 rest] eqn:E; st_simp.
  - fin_done.
  - step. cbn [exec base_list]. st_simp. rewrite E. apply mix_fin. apply Hmid.
Qed.

Lemma ExecuteMixModel_ok c : fin (exec_list c ExecuteMixModel (init_state c)) (spec EExecuteMixModel c).
Proof. apply mix_entry_ok. intros. apply par_from1_cond. Qed.

Lemma ExecuteMixModelWithStopTagDirect_ok c :
  fin (exec_list c ExecuteMixModelWithStopTagDirect (init_state c)) (spec EExecuteMixModelWithStopTagDirect c).
Proof. apply mix_entry_ok. intros. apply par_from1_ifns. Qed.

(* ------------------------------------------------------------------ *)
(* selection *)
Lemma select_skip c names : forall acc, select c MSkip names acc = (acc ++ sel c names, Running).
Proof.
  induction names as [|n ns IH]; intro acc; cbn [select sel flat_map].
  - now rewrite app_nil_r.
  - fold (sel c ns). destruct (find_rule n (c_rules c)); rewrite IH; [now rewrite <- app_assoc|reflexivity].
Qed.

Lemma select_fail c names : forall acc,
  select c MFail names acc =
  if all_known c names then (acc ++ sel c names, Running) else (fst (select c MFail names acc), RetErr).
Proof.
  induction names as [|n ns IH]; intro acc; cbn [select sel flat_map all_known forallb].
  - now rewrite app_nil_r.
  - fold (sel c ns) (all_known c ns). destruct (find_rule n (c_rules c)); cbn [andb].
    + rewrite IH. destruct (all_known c ns); [now rewrite <- app_assoc | reflexivity].
    + reflexivity.
Qed.

Lemma sel_norules c names : c_rules c = [] -> sel c names = [].
Proof.
  intros E. unfold sel. induction names as [|n ns IH]; [reflexivity|].
  cbn [flat_map]. rewrite E at 1. cbn [find_rule app]. exact IH.
Qed.

Lemma sel_length c names : all_known c names = true -> length (sel c names) = length names.
Proof.
  unfold sel, all_known. induction names as [|n ns IH]; [reflexivity|].
  cbn [flat_map forallb]. destruct (find_rule n (c_rules c)); cbn [andb]; [|discriminate].
  intros H. cbn [app length]. now rewrite IH.
Qed.

Lemma select_head_ok c g rest : g = GEmptyEnts \/ g = GEmptySorted ->
  exec_list c (select_head g ++ rest) (init_state c) =
  exec_list c rest (mkSt (sel c (c_names c)) (c_names c) false (c_stop0 c) [] (rk [])
                         (if is_nil (sel c (c_names c)) then RetErr else Running)).
Proof.
  intros Hg. unfold select_head. cbn [app]. rewrite reset_ok. step.
  assert (Hgd : eval_guard c (mkSt [] (c_names c) false (c_stop0 c) [] (rk []) Running) g =
                is_nil (c_rules c)) by (destruct Hg; subst g; reflexivity).
  rewrite ex_guard, Hgd. destruct (c_rules c) eqn:E; cbn [is_nil]; st_simp.
  - rewrite (sel_norules c _ E). cbn [is_nil]. rewrite !el_halt; cbn [st_stat]; congruence.
  - step. cbn [exec]. st_simp. rewrite select_skip. cbn [app]. st_simp.
    step. cbn [exec eval_guard]. st_simp.
    destruct (sel c (c_names c)); cbn [is_nil]; st_simp; reflexivity.
Qed.

Lemma cond_sort c loc names errs stop segs m :
  exec c (ICond (LenGe 2) [ISort]) (mkSt loc names errs stop segs m Running) =
  mkSt (sort_desc loc) names errs stop segs m Running.
Proof.
  rewrite ex_cond. destruct loc as [|x [|y l]]; cbn [eval_cond st_local length Nat.leb]; reflexivity.
Qed.

Lemma sel_sorted_ok c g p tag (sorted : bool) :
  g = GEmptyEnts \/ g = GEmptySorted -> p <> ReturnAlways ->
  fin (exec_list c (select_head g ++ (if sorted then [ICond (LenGe 2) [ISort]] else []) ++ sort_loop BLocal p tag)
                 (init_state c))
      (if is_nil (sel c (c_names c)) then ([], true)
       else sorted_stage (eff p (c_b c)) tag c
                         (if sorted then sort_desc (sel c (c_names c)) else sel c (c_names c))).
Proof.
  intros Hg Hp. rewrite select_head_ok by assumption.
  destruct (sel c (c_names c)) as [|x s] eqn:E; cbn [is_nil].
  - rewrite el_halt by (cbn [st_stat]; congruence). repeat split.
  - destruct sorted; cbn [app].
    + step. rewrite cond_sort. apply (@sort_loop_fin c BLocal p tag); assumption.
    + apply (@sort_loop_fin c BLocal p tag); assumption.
Qed.

Lemma single_fin c r names stop rest :
  fin (exec_list c (ICond (LenEq 1) [ISeq BLocal WIdx0 StopFirst false; IRetNil] :: rest)
                 (mkSt [r] names false stop [] (rk []) Running))
      ([Seq [r]], efail r).
Proof.
  step. rewrite ex_cond. cbn [eval_cond st_local length Nat.eqb].
  step. erewrite ex_seq; [| discriminate | reflexivity].
  cbv zeta. cbn [eff sort_prefix andb negb]. rewrite andb_true_r.
  destruct (efail r) eqn:Ef; cbn [any_fail existsb]; rewrite Ef; st_simp; cbn [ne filter app].
  - cbn [exec_list st_stat]. rewrite el_halt by (cbn [st_stat]; congruence). repeat split.
  - step. cbn [exec]. st_simp. cbn [exec_list]. rewrite el_halt by (cbn [st_stat]; congruence). repeat split.
Qed.

Lemma ExecuteSelectedRulesConcurrent_ok c :
  fin (exec_list c ExecuteSelectedRulesConcurrent (init_state c)) (spec EExecuteSelectedRulesConcurrent c).
Proof.
  unfold ExecuteSelectedRulesConcurrent. rewrite select_head_ok by auto. cbn [spec].
  destruct (sel c (c_names c)) as [|x [|y s]] eqn:E; cbn [is_nil].
  - rewrite el_halt by (cbn [st_stat]; congruence). repeat split.
  - apply single_fin.
  - step. rewrite ex_cond. cbn [eval_cond st_local length Nat.eqb].
    step. erewrite ex_par; [| reflexivity | reflexivity ].
    cbn [app ne filter orb]. fin_done.
Qed.

Lemma seq_all_ret_fin c loc names stop segs rest :
  let pre := sort_prefix false false stop loc in
  fin (exec_list c rest (exec_list c [ISeq BLocal WAll StopFirst false; IRetNil]
                                   (mkSt loc names false stop segs (rk segs) Running)))
      (segs ++ ne [Seq pre], any_fail pre).
Proof.
  intros pre. step. erewrite ex_seq; [| discriminate | reflexivity].
  cbv zeta. cbn [eff bl negb andb]. fold pre.
  destruct (any_fail pre) eqn:E; st_simp.
  - cbn [exec_list st_stat]. rewrite el_halt by (cbn [st_stat]; congruence). repeat split.
  - step. cbn [exec]. st_simp. cbn [exec_list]. rewrite el_halt by (cbn [st_stat]; congruence). repeat split.
Qed.

Lemma ExecuteSelectedRulesMixModel_ok c :
  fin (exec_list c ExecuteSelectedRulesMixModel (init_state c)) (spec EExecuteSelectedRulesMixModel c).
Proof.
  unfold ExecuteSelectedRulesMixModel. rewrite select_head_ok by auto. cbn [spec].
  destruct (sel c (c_names c)) as [|x [|y [|z s]]] eqn:E; cbn [is_nil].
  - rewrite el_halt by (cbn [st_stat]; congruence). repeat split.
  - apply single_fin.
  - step. rewrite ex_cond. cbn [eval_cond st_local length Nat.eqb].
    step. cbn [exec]. st_simp.
    step. rewrite ex_cond. cbn [eval_cond st_local]. rewrite sort_desc_length. cbn [length Nat.eqb].
    apply (@seq_all_ret_fin c (sort_desc [x; y]) (c_names c) (c_stop0 c) []).
  - step. rewrite ex_cond. cbn [eval_cond st_local length Nat.eqb].
    step. cbn [exec]. st_simp.
    step. rewrite ex_cond. cbn [eval_cond st_local]. rewrite sort_desc_length. cbn [length Nat.eqb].
    pose proof (sort_desc_length (x :: y :: z :: s)) as Hl.
    destruct (sort_desc (x :: y :: z :: s)) as [|r0 rest]; [discriminate|].
    apply mix_fin. intros. cbn [andb]. apply par_from1.
Qed.

Lemma removelast_zlen (l : list erule) : l <> [] -> (zlen l - 1 = zlen (removelast l))%Z.
Proof.
  intros H. pose proof (app_removelast_last (mkER "" 0 false false false None) H) as E.
  apply (f_equal (@length _)) in E. rewrite app_length in E. cbn [length] in E. unfold zlen. lia.
Qed.

Lemma inverse_tail_fin c l names : l <> [] ->
  fin (exec_list c inverse_tail (mkSt l names false (c_stop0 c) [] (rk []) Running)) (inverse_stage c l).
Proof.
  intros Hl. unfold inverse_tail. step. rewrite ex_cond. cbn [eval_cond st_local].
  destruct l as [|a [|b [|d l]]]; [congruence| | |]; cbn [inverse_stage length Nat.leb].
  1,2: apply (@seq_all_ret_fin c _ names (c_stop0 c) []).
  set (l0 := a :: b :: d :: l) in *.
  step. erewrite ex_par; [| reflexivity | apply removelast_zlen, Hl ].
  cbn [bl].
  assert (Hne : ne [Par (removelast l0)] = [Par (removelast l0)]) by reflexivity.
  rewrite Hne. cbn [app orb].
  step. cbn [exec]. st_simp.
  destruct (any_fail (removelast l0)) eqn:Ei.
  - st_simp. fin_done.
  - step. erewrite ex_seq; [| discriminate | reflexivity].
    cbv zeta. cbn [bl eff sort_prefix andb negb]. rewrite andb_true_r.
    set (lst := last l0 _).
    destruct (efail lst) eqn:Ef; cbn [any_fail existsb]; rewrite Ef; st_simp; cbn [ne filter app].
    + fin_done.
    + step. cbn [exec]. st_simp. cbn [exec_list]. repeat split.
Qed.

Lemma ExecuteInverseMixModel_ok c :
  fin (exec_list c ExecuteInverseMixModel (init_state c)) (spec EExecuteInverseMixModel c).
Proof.
  unfold ExecuteInverseMixModel. cbn [app spec]. rewrite reset_ok.
  step. cbn [exec base_list]. st_simp. step. cbn [exec eval_guard]. st_simp.
  destruct (c_rules c) as [|a l] eqn:E.
  - fin_done.
  - apply inverse_tail_fin. discriminate.
Qed.

Lemma sort_desc_nonnil l : l <> [] -> sort_desc l <> [].
Proof.
  intros H E. apply H. apply length_zero_iff_nil. rewrite <- sort_desc_length, E. reflexivity.
Qed.

Lemma ExecuteSelectedRulesInverseMixModel_ok c :
  fin (exec_list c ExecuteSelectedRulesInverseMixModel (init_state c))
      (spec EExecuteSelectedRulesInverseMixModel c).
Proof.
  unfold ExecuteSelectedRulesInverseMixModel. cbn [app spec]. rewrite reset_ok.
  step. cbn [exec]. st_simp. rewrite select_skip. cbn [app]. st_simp.
  step. cbn [exec eval_guard]. st_simp.
  destruct (sel c (c_names c)) as [|a l] eqn:E.
  - fin_done.
  - step. cbn [exec]. st_simp. apply inverse_tail_fin. apply sort_desc_nonnil. discriminate.
Qed.

(* ------------------------------------------------------------------ *)
(* N-M windows *)
Lemma nm_windows c (l : list erule) :
  (0 < c_n c)%Z -> (0 < c_m c)%Z -> (c_n c + c_m c <= zlen l)%Z ->
  let w1 := firstn (Z.to_nat (c_n c)) l in
  let w2 := firstn (Z.to_nat (c_m c)) (skipn (Z.to_nat (c_n c)) l) in
  window c l WFirstN = Some w1 /\ window c l WDropNTakeM = Some w2 /\
  c_n c = zlen w1 /\ c_m c = zlen w2.
Proof.
  intros Hn Hm Hs w1 w2. unfold window, zlen in *.
  pose proof (skipn_length (Z.to_nat (c_n c)) l) as Hk.
  pose proof (firstn_length (Z.to_nat (c_n c)) l) as H1.
  pose proof (firstn_length (Z.to_nat (c_m c)) (skipn (Z.to_nat (c_n c)) l)) as H2.
  fold w1 in H1. fold w2 in H2.
  repeat split.
  - destruct (Z.leb_spec 0 (c_n c)), (Z.leb_spec (c_n c) (Z.of_nat (length l))); try lia. reflexivity.
  - destruct (Z.leb_spec 0 (c_n c)), (Z.leb_spec (c_n c) (Z.of_nat (length l))); try lia. cbn [andb].
    destruct (Z.leb_spec 0 (c_m c)),
             (Z.leb_spec (c_m c) (Z.of_nat (length (skipn (Z.to_nat (c_n c)) l)))); try lia. reflexivity.
  - lia.
  - lia.
Qed.

Definition nm_prog (k : nm_kind) (b : base) : list instr :=
  match k with SortConc => nsort_mconc b | ConcSort => nconc_msort b | ConcConc => nconc_mconc b end.

Lemma any_fail_app a b : any_fail (a ++ b) = (any_fail a || any_fail b)%bool.
Proof. apply existsb_app. Qed.

Lemma nm_tail_fin c k b loc names :
  (0 < c_n c)%Z -> (0 < c_m c)%Z -> (c_n c + c_m c <= zlen (bl c b loc))%Z ->
  fin (exec_list c (nm_prog k b) (mkSt loc names false (c_stop0 c) [] (rk []) Running))
      (nm_stage k c (bl c b loc)).
Proof.
  intros Hn Hm Hs. destruct (nm_windows c (bl c b loc) Hn Hm Hs) as (Hw1 & Hw2 & Hc1 & Hc2).
  unfold nm_stage. cbv zeta in *.
  set (w1 := firstn (Z.to_nat (c_n c)) (bl c b loc)) in *.
  set (w2 := firstn (Z.to_nat (c_m c)) (skipn (Z.to_nat (c_n c)) (bl c b loc))) in *.
  destruct k; cbn [nm_prog]; unfold nsort_mconc, nconc_msort, nconc_mconc.
  - (* SortConc *)
    step. erewrite ex_seq; [| discriminate | exact Hw1]. cbv zeta. cbn [eff].
    destruct (c_b c) eqn:Eb.
    + rewrite sort_prefix_true_notag. st_simp.
      step. erewrite ex_par; [| exact Hw2 | exact Hc2].
      rewrite (ne_cons (Seq w1) [Par w2]), any_fail_app. cbn [app]. fin_done.
    + rewrite (sort_prefix_notag false (c_stop0 c) false), any_fail_prefix.
      destruct (any_fail w1) eqn:E1; st_simp.
      * fin_done.
      * rewrite (sort_prefix_nofail false false w1 E1).
        step. erewrite ex_par; [| exact Hw2 | exact Hc2].
        rewrite (ne_cons (Seq w1) [Par w2]). cbn [app orb]. fin_done.
  - (* ConcSort *)
    step. erewrite ex_par; [| exact Hw1 | exact Hc1].
    step. cbn [exec]. st_simp.
    destruct (c_b c) eqn:Eb; st_simp.
    + step. erewrite ex_seq; [| discriminate | exact Hw2]. cbv zeta. cbn [eff]. rewrite Eb.
      rewrite sort_prefix_true_notag. st_simp.
      rewrite (ne_cons (Par w1) [Seq _]), any_fail_app. cbn [app]. fin_done.
    + destruct (any_fail w1) eqn:E1; st_simp.
      * cbn [app]. fin_done.
      * step. erewrite ex_seq; [| discriminate | exact Hw2]. cbv zeta. cbn [eff]. rewrite Eb.
        rewrite (sort_prefix_notag false (c_stop0 c || existsb estop w1) false), any_fail_prefix.
        rewrite (ne_cons (Par w1) [Seq _]). cbn [app].
        destruct (any_fail w2) eqn:E2; st_simp; fin_done.
  - (* ConcConc *)
    step. erewrite ex_par; [| exact Hw1 | exact Hc1].
    step. cbn [exec]. st_simp.
    destruct (c_b c) eqn:Eb; st_simp.
    + step. erewrite ex_par; [| exact Hw2 | exact Hc2].
      rewrite (ne_cons (Par w1) [Par w2]), any_fail_app. cbn [app]. fin_done.
    + destruct (any_fail w1) eqn:E1; st_simp.
      * cbn [app]. fin_done.
      * step. erewrite ex_par; [| exact Hw2 | exact Hc2].
        rewrite (ne_cons (Par w1) [Par w2]). cbn [app orb]. fin_done.
Qed.

Lemma nm_entry_ok c k :
  fin (exec_list c (nm_guards ++ nm_prog k BSorted) (init_state c))
      (if nm_valid c then nm_stage k c (c_rules c) else ([], true)).
Proof.
  unfold nm_guards. cbn [app]. rewrite reset_ok. unfold nm_valid.
  step. cbn [exec eval_guard]. destruct (Z.leb_spec (c_n c) 0) as [H1|H1]; st_simp.
  { replace (0 <? c_n c)%Z with false by lia. cbn [andb]. fin_done. }
  step. cbn [exec eval_guard]. destruct (Z.leb_spec (c_m c) 0) as [H2|H2]; st_simp.
  { replace (0 <? c_m c)%Z with false by lia. rewrite andb_false_r. cbn [andb]. fin_done. }
  step. cbn [exec eval_guard]. destruct (Z.ltb_spec (zlen (c_rules c)) (c_n c + c_m c)) as [H3|H3]; st_simp.
  { replace (c_n c + c_m c <=? zlen (c_rules c))%Z with false by lia. rewrite andb_false_r. cbn [andb]. fin_done. }
  replace (0 <? c_n c)%Z with true by lia. replace (0 <? c_m c)%Z with true by lia.
  replace (c_n c + c_m c <=? zlen (c_rules c))%Z with true by lia. cbn [andb].
  apply (@nm_tail_fin c k BSorted [] (c_names c)); assumption.
Qed.

Lemma nm_sel_entry_ok c k :
  fin (exec_list c (nm_sel_guards ++ nm_prog k BLocal) (init_state c))
      (if nm_sel_valid c then nm_stage k c (sort_desc (sel c (c_names c))) else ([], true)).
Proof.
  unfold nm_sel_guards. cbn [app]. rewrite reset_ok. unfold nm_sel_valid, nm_valid.
  step. cbn [exec eval_guard]. destruct (Z.leb_spec (c_n c) 0) as [H1|H1]; st_simp.
  { replace (0 <? c_n c)%Z with false by lia. cbn [andb]. fin_done. }
  step. cbn [exec eval_guard]. destruct (Z.leb_spec (c_m c) 0) as [H2|H2]; st_simp.
  { replace (0 <? c_m c)%Z with false by lia. rewrite andb_false_r. cbn [andb]. fin_done. }
  step. cbn [exec eval_guard]. st_simp.
  destruct (Z.eqb_spec (c_n c + c_m c) (zlen (c_names c))) as [H4|H4]; st_simp.
  2:{ rewrite andb_false_r. cbn [andb]. fin_done. }
  step. cbn [exec eval_guard]. destruct (Z.ltb_spec (zlen (c_rules c)) (c_n c + c_m c)) as [H3|H3]; st_simp.
  { replace (c_n c + c_m c <=? zlen (c_rules c))%Z with false by lia. rewrite andb_false_r. cbn [andb]. fin_done. }
  replace (0 <? c_n c)%Z with true by lia. replace (0 <? c_m c)%Z with true by lia.
  replace (c_n c + c_m c <=? zlen (c_rules c))%Z with true by lia. cbn [andb].
  step. cbn [exec]. st_simp. rewrite select_fail. cbn [app].
  destruct (all_known c (c_names c)) eqn:Ek; st_simp.
  2:{ fin_done. }
  step. cbn [exec]. st_simp.
  apply (@nm_tail_fin c k BLocal _ (c_names c)); try assumption.
  cbn [bl]. unfold zlen in *. rewrite sort_desc_length, (sel_length c _ Ek). lia.
Qed.

(* ------------------------------------------------------------------ *)
(* DAG layers *)
Definition dag_body : list instr :=
  [ISelect MSkip; ICond (LenGe 1) [IPar BLocal WAll CLen true]; IFailIfErrs].

Definition layer_step (c : cfg) (s : mstate) (layer : list string) : mstate :=
  match st_stat s with
  | Running => exec_list c dag_body (set_names s layer)
  | _ => s
  end.

Lemma layer_step_char c loc names stop segs ly :
  layer_step c (mkSt loc names false stop segs (rk segs) Running) ly =
  let l := sel c ly in
  mkSt l ly (any_fail l) (stop || existsb estop l) (segs ++ ne [Par l]) (rk (segs ++ ne [Par l]))
       (if any_fail l then RetErr else Running).
Proof.
  unfold layer_step, dag_body. st_simp.
  step. cbn [exec]. st_simp. rewrite select_skip. cbn [app]. st_simp.
  cbv zeta. set (l := sel c ly).
  step. rewrite ex_cond. cbn [eval_cond st_local].
  assert (Hpar : (if Nat.leb 1 (length l)
                  then exec_list c [IPar BLocal WAll CLen true]
                                 (mkSt l ly false stop segs (rk segs) Running)
                  else mkSt l ly false stop segs (rk segs) Running) =
                 mkSt l ly (any_fail l) (stop || existsb estop l) (segs ++ ne [Par l])
                      (rk (segs ++ ne [Par l])) Running).
  { destruct l as [|x l'] eqn:El.
    - cbn [length Nat.leb any_fail existsb ne filter]. now rewrite orb_false_r, app_nil_r.
    - cbn [length Nat.leb]. rewrite <- El. step. erewrite ex_par; [| reflexivity | reflexivity].
      reflexivity. }
  rewrite Hpar. step. cbn [exec]. st_simp. destruct (any_fail l); reflexivity.
Qed.

Definition dagres (s : mstate) (segs : list seg) (err : bool) : Prop :=
  st_segs s = segs /\ st_map s = rk segs /\ st_stat s = (if err then RetErr else Running).

Lemma fold_halt c layers : forall s, st_stat s <> Running -> fold_left (layer_step c) layers s = s.
Proof.
  induction layers as [|ly rest IH]; intros s H; [reflexivity|].
  cbn [fold_left]. unfold layer_step at 2. destruct (st_stat s) eqn:E; try congruence; apply IH; congruence.
Qed.

Lemma dag_fold c layers : forall loc names stop segs,
  dagres (fold_left (layer_step c) layers (mkSt loc names false stop segs (rk segs) Running))
         (segs ++ fst (dag_stage c layers)) (snd (dag_stage c layers)).
Proof.
  induction layers as [|ly rest IH]; intros loc names stop segs.
  - cbn [fold_left dag_stage fst snd]. rewrite app_nil_r. repeat split.
  - cbn [fold_left dag_stage]. rewrite layer_step_char. cbv zeta.
    destruct (any_fail (sel c ly)) eqn:Ef.
    + rewrite fold_halt by (cbn [st_stat]; congruence). repeat split.
    + specialize (IH (sel c ly) ly (stop || existsb estop (sel c ly))%bool (segs ++ ne [Par (sel c ly)])).
      destruct (dag_stage c rest) as [sg e]. cbn [fst snd] in *.
      rewrite app_assoc. exact IH.
Qed.

Lemma ExecuteDAGModel_ok c :
  fin (exec_list c ExecuteDAGModel (init_state c)) (spec EExecuteDAGModel c).
Proof.
  unfold ExecuteDAGModel. rewrite reset_ok. cbn [spec].
  step. rewrite ex_cond. cbn [eval_cond].
  destruct (c_layers c) as [|ly rest] eqn:El.
  - cbn [dag_stage]. step. cbn [exec]. st_simp. fin_done.
  - rewrite <- El. step. rewrite ex_for.
    change (fun s layer => match st_stat s with
                           | Running => exec_list c [ISelect MSkip; ICond (LenGe 1) [IPar BLocal WAll CLen true]; IFailIfErrs] (set_names s layer)
                           | _ => s end) with (layer_step c).
    destruct (dag_fold c (c_layers c) [] (c_names c) (c_stop0 c) []) as (H1 & H2 & H3).
    cbn [app] in *.
    set (s := fold_left _ _ _) in *.
    destruct (snd (dag_stage c (c_layers c))) eqn:Ee.
    + rewrite el_halt by congruence. unfold fin. rewrite Ee. auto.
    + step. rewrite H3. cbn [exec]. cbn [exec_list]. unfold fin, set_stat. rewrite Ee.
      cbn [st_segs st_stat st_map]. auto.
Qed.

(* ------------------------------------------------------------------ *)
Theorem hand_fin : forall (e : entry) (c : cfg), fin (exec_list c (hand e) (init_state c)) (spec e c).
Proof.
  intros e c. destruct e; cbn [hand spec].
  - apply (Execute_sorted_ok c false).
  - apply (Execute_sorted_ok c true).
  - apply ExecuteConcurrent_ok.
  - apply ExecuteMixModel_ok.
  - apply ExecuteMixModelWithStopTagDirect_ok.
  - apply (@sel_sorted_ok c GEmptyEnts Collect false true); [auto | discriminate].
  - apply (@sel_sorted_ok c GEmptySorted ByFlag false true); [auto | discriminate].
  - apply (@sel_sorted_ok c GEmptySorted ByFlag false false); [auto | discriminate].
  - apply (@sel_sorted_ok c GEmptySorted ByFlag true true); [auto | discriminate].
  - apply (@sel_sorted_ok c GEmptySorted ByFlag true false); [auto | discriminate].
  - apply ExecuteSelectedRulesConcurrent_ok.
  - apply ExecuteSelectedRulesMixModel_ok.
  - apply ExecuteInverseMixModel_ok.
  - apply ExecuteSelectedRulesInverseMixModel_ok.
  - apply (nm_entry_ok c SortConc).
  - apply (nm_entry_ok c ConcSort).
  - apply (nm_entry_ok c ConcConc).
  - apply (nm_sel_entry_ok c SortConc).
  - apply (nm_sel_entry_ok c ConcSort).
  - apply (nm_sel_entry_ok c ConcConc).
  - apply ExecuteDAGModel_ok.
Qed.

Theorem hand_sound : forall (e : entry) (c : cfg), run_prog (hand e) c = spec_outcome e c.
Proof. intros e c. apply fin_sound, hand_fin. Qed.

Lemma spec_outcome_stat e c :
  o_stat (spec_outcome e c) = (if o_err (spec_outcome e c) then RetErr else RetNil).
Proof. unfold spec_outcome. destruct (spec e c) as [segs err]. reflexivity. Qed.

Corollary hand_never_crashes : forall e c,
  o_stat (run_prog (hand e) c) = RetNil \/ o_stat (run_prog (hand e) c) = RetErr.
Proof.
  intros e c. rewrite hand_sound, spec_outcome_stat. destruct (o_err (spec_outcome e c)); auto.
Qed.

Corollary hand_err_iff : forall e c,
  o_err (run_prog (hand e) c) = true <-> o_stat (run_prog (hand e) c) = RetErr.
Proof.
  intros e c. rewrite hand_sound, spec_outcome_stat.
  destruct (o_err (spec_outcome e c)); split; intro; congruence.
Qed.

(* the outcome does not depend on what the previous call left in the result map *)
Definition with_prev (c : cfg) (p : option rmap) : cfg :=
  mkCfg (c_rules c) (c_b c) (c_n c) (c_m c) (c_names c) (c_layers c) (c_stop0 c) p.

Lemma dag_stage_prev c p layers : dag_stage (with_prev c p) layers = dag_stage c layers.
Proof.
  induction layers as [|ly rest IH]; [reflexivity|].
  cbn [dag_stage]. rewrite IH. destruct c; reflexivity.
Qed.

Lemma spec_prev e c p : spec e (with_prev c p) = spec e c.
Proof.
  destruct e; try (destruct c; reflexivity).
  cbn [spec]. rewrite dag_stage_prev. destruct c; reflexivity.
Qed.

Theorem hand_prev_irrelevant : forall e c p, run_prog (hand e) (with_prev c p) = run_prog (hand e) c.
Proof. intros. rewrite !hand_sound. unfold spec_outcome. now rewrite spec_prev. Qed.

Corollary hand_no_stale : forall e c p,
  o_map (run_prog (hand e) (mkCfg (c_rules c) (c_b c) (c_n c) (c_m c) (c_names c) (c_layers c) (c_stop0 c) p)) =
  o_map (run_prog (hand e) c).
Proof. intros e c p. exact (f_equal o_map (hand_prev_irrelevant e c p)). Qed.

Corollary hand_no_stale_segs : forall e c p,
  o_segs (run_prog (hand e) (mkCfg (c_rules c) (c_b c) (c_n c) (c_m c) (c_names c) (c_layers c) (c_stop0 c) p)) =
  o_segs (run_prog (hand e) c).
Proof. intros e c p. exact (f_equal o_segs (hand_prev_irrelevant e c p)). Qed.

Corollary hand_no_stale_err : forall e c p,
  o_err (run_prog (hand e) (mkCfg (c_rules c) (c_b c) (c_n c) (c_m c) (c_names c) (c_layers c) (c_stop0 c) p)) =
  o_err (run_prog (hand e) c).
Proof. intros e c p. exact (f_equal o_err (hand_prev_irrelevant e c p)). Qed.

(* the result map is never nil after a call, and holds exactly the entries of the executed rules *)
Corollary hand_map : forall e c,
  o_map (run_prog (hand e) c) = Some (result_entries (executed (o_segs (run_prog (hand e) c)))).
Proof.
  intros e c. rewrite hand_sound. unfold spec_outcome. destruct (spec e c); reflexivity.
Qed.

(* the key-level reading of [hand_map] (its statement before the map carried values) *)
Corollary hand_map_keys : forall e c,
  option_map (map fst) (o_map (run_prog (hand e) c)) =
  Some (result_keys (executed (o_segs (run_prog (hand e) c)))).
Proof. intros e c. now rewrite hand_map. Qed.

Print Assumptions hand_sound.
Print Assumptions hand_no_stale.
Print Assumptions sort_desc_stable.
