(* Engine/TagFacts.v — the caller's stop tag belongs to the rules.  For EVERY program of the IR (so for whatever T1 generates from
   engine/gengine.go, as long as it generates a program at all — a statement that writes the tag is not an instruction of the IR
   and comes out as IUnknown) and every configuration: if the tag is set when the call ends, it was set when the call started or
   a rule that the call RAN sets it.  The engine itself never writes the tag. *)
From Coq Require Import String List Bool ZArith.
From GV Require Import Rules.KcModel Engine.IR Engine.Spec Engine.Sound.
Import ListNotations.

Section Tag.
  Variable c : cfg.

  Definition tag_explained (s : mstate) : Prop :=
    st_stop s = true -> c_stop0 c = true \/ exists r, In r (executed (st_segs s)) /\ estop r = true.

  Lemma add_result_keeps s r : st_stop (add_result s r) = st_stop s /\ st_segs (add_result s r) = st_segs s.
  Proof. unfold add_result. destruct (eret r); [|auto]. destruct (st_map s); auto. Qed.

  Lemma fold_add_result_keeps l : forall s, st_stop (fold_left add_result l s) = st_stop s /\ st_segs (fold_left add_result l s) = st_segs s.
  Proof.
    induction l as [|r l IH]; intro s; [auto|]. cbn [fold_left]. destruct (IH (add_result s r)) as [A B].
    destruct (add_result_keeps s r) as [C D]. rewrite A, B, C, D. auto.
  Qed.

  (* a sequential loop: the segments are untouched; the tag afterwards is explained by the tag before or by a rule that ran *)
  Lemma seq_run_tag b p tag l : forall s ran s', seq_run b p tag l s = (ran, s') ->
    st_segs s' = st_segs s /\ (st_stop s' = true -> st_stop s = true \/ exists r, In r ran /\ estop r = true).
  Proof.
    induction l as [|r l IH]; intros s ran s' H.
    - cbn in H. injection H as <- <-. auto.
    - cbn [seq_run] in H. destruct (add_result_keeps s r) as [K1 K2].
      set (s1 := mkSt (st_local (add_result s r)) (st_names (add_result s r)) (st_errs (add_result s r)) (st_stop (add_result s r) || estop r)
                      (st_segs (add_result s r)) (st_map (add_result s r)) (st_stat (add_result s r))) in *.
      assert (S1 : st_segs s1 = st_segs s) by (subst s1; cbn; exact K2).
      assert (T1 : st_stop s1 = st_stop s || estop r) by (subst s1; cbn; rewrite K1; reflexivity).
      assert (base : forall s2, st_segs s2 = st_segs s1 -> st_stop s2 = st_stop s1 ->
                st_segs s2 = st_segs s /\ (st_stop s2 = true -> st_stop s = true \/ exists r0, In r0 [r] /\ estop r0 = true)).
      { intros s2 A B. split; [congruence|]. intros E. rewrite B, T1 in E. apply orb_true_iff in E. destruct E as [E|E]; [left; exact E|].
        right. exists r. split; [left; reflexivity|exact E]. }
      destruct (st_stat s1) eqn:Est.
      2,3,4,5,6: injection H as <- <-; apply base; reflexivity.
      (* Running *)
      match type of H with context [match st_stat ?x with _ => _ end] => set (ae := x) in * end.
      assert (AE : st_segs ae = st_segs s1 /\ st_stop ae = st_stop s1).
      { subst ae. destruct p; destruct (efail r); try destruct b; cbn; auto. }
      destruct AE as [AE1 AE2].
      destruct (st_stat ae) eqn:Eae.
      2,3,4,5,6: injection H as <- <-; apply base; assumption.
      destruct (tag && st_stop ae)%bool.
      + injection H as <- <-. apply base; assumption.
      + destruct (seq_run b p tag l ae) as [ran2 s2] eqn:E2. injection H as <- <-.
        destruct (IH _ _ _ E2) as [I1 I2]. split; [congruence|].
        intros E. destruct (I2 E) as [E'|[r0 [Hr0 Hs0]]].
        * rewrite AE2, T1 in E'. apply orb_true_iff in E'. destruct E' as [E'|E']; [left; exact E'|].
          right. exists r. split; [left; reflexivity|exact E'].
        * right. exists r0. split; [right; exact Hr0|exact Hs0].
  Qed.

  Lemma par_run_tag l s : st_segs (par_run l s) = st_segs s /\ st_stop (par_run l s) = st_stop s || existsb estop l.
  Proof. unfold par_run. destruct (fold_add_result_keeps l s) as [A B]. cbn. rewrite A, B. auto. Qed.

  Lemma executed_app a b : executed (a ++ b) = executed a ++ executed b.
  Proof. unfold executed. apply flat_map_app. Qed.

  Lemma push_seg_tag s g : st_stop (push_seg s g) = st_stop s /\ executed (st_segs (push_seg s g)) = executed (st_segs s) ++ seg_rules g.
  Proof.
    unfold push_seg. destruct g as [l|l]; destruct l; cbn [st_stop st_segs seg_rules]; rewrite ?app_nil_r; auto;
      rewrite executed_app; unfold executed at 2; cbn [flat_map seg_rules]; rewrite app_nil_r; auto.
  Qed.

  Lemma explained_weaken s s' :
    tag_explained s -> (st_stop s' = true -> st_stop s = true \/ exists r, In r (executed (st_segs s')) /\ estop r = true) ->
    (forall r, In r (executed (st_segs s)) -> In r (executed (st_segs s'))) -> tag_explained s'.
  Proof.
    intros P H Hin E. destruct (H E) as [E0|[r [Hr Hs]]].
    - destruct (P E0) as [A|[r [Hr Hs]]]; [left; exact A|right; exists r; auto].
    - right. exists r. auto.
  Qed.

  Lemma same_tag_segs s s' : st_stop s' = st_stop s -> st_segs s' = st_segs s -> tag_explained s -> tag_explained s'.
  Proof. intros A B P. unfold tag_explained. rewrite A, B. exact P. Qed.

  (* nested induction over instructions *)
  Section InstrInd.
    Variable Pi : instr -> Prop.
    Hypothesis Hleaf : forall i, (forall k b, i <> ICond k b) -> (forall b, i <> IIfNotStopped b) -> (forall b, i <> IForLayers b) -> Pi i.
    Hypothesis Hcond : forall k body, Forall Pi body -> Pi (ICond k body).
    Hypothesis Hifns : forall body, Forall Pi body -> Pi (IIfNotStopped body).
    Hypothesis Hfor : forall body, Forall Pi body -> Pi (IForLayers body).
    Fixpoint instr_ind' (i : instr) : Pi i :=
      let go := fix go (l : list instr) : Forall Pi l :=
                  match l with [] => Forall_nil _ | x :: r => Forall_cons _ (instr_ind' x) (go r) end in
      match i with
      | ICond k body => Hcond k body (go body)
      | IIfNotStopped body => Hifns body (go body)
      | IForLayers body => Hfor body (go body)
      | j => Hleaf j ltac:(intros; discriminate) ltac:(intros; discriminate) ltac:(intros; discriminate)
      end.
  End InstrInd.

  Lemma exec_list_explained l : Forall (fun i => forall s, tag_explained s -> tag_explained (exec c i s)) l ->
    forall s, tag_explained s -> tag_explained (exec_list c l s).
  Proof.
    induction 1 as [|i l Hi _ IH]; intros s P; [exact P|]. rewrite el_cons. destruct (st_stat s); try exact P. apply IH, Hi, P.
  Qed.

  Lemma ex_par b w k waited s :
    exec c (IPar b w k waited) s =
    match window c (base_list c s b) w with
    | None => set_stat s Crash
    | Some l => if negb waited then set_stat s Unmodelled
                else if negb (Z.eqb (count c (base_list c s b) k) (zlen l)) then set_stat (push_seg s (Par l)) Stuck
                else push_seg (par_run l s) (Par l)
    end.
  Proof.
    cbn [exec]. destruct (window c (base_list c s b) w) as [l|]; [|reflexivity]. destruct (negb waited); [reflexivity|].
    destruct (negb (Z.eqb (count c (base_list c s b) k) (zlen l))); [reflexivity|]. destruct (st_stat (par_run l s)); reflexivity.
  Qed.

  Theorem exec_explained i : forall s, tag_explained s -> tag_explained (exec c i s).
  Proof.
    induction i using instr_ind'.
    - (* instructions without a body *)
      intros s P. destruct i; try (exfalso; eapply H; reflexivity); try (exfalso; eapply H0; reflexivity); try (exfalso; eapply H1; reflexivity).
      + cbn. destruct (eval_guard c s g); [apply (same_tag_segs s); auto|exact P].
      + apply (same_tag_segs s); auto.
      + apply (same_tag_segs s); auto.
      + cbn. destruct (select c m (st_names s) []) as [l stt]. apply (same_tag_segs s); auto.
      + apply (same_tag_segs s); auto.
      + (* ISeq *)
        cbn. destruct (window c (base_list c s b) w) as [l|]; [|apply (same_tag_segs s); auto].
        destruct (seq_run (c_b c) p stoptag l s) as [ran s'] eqn:E. destruct (seq_run_tag _ _ _ _ _ _ _ E) as [A B].
        apply (explained_weaken s); [exact P| |].
        * cbn [st_stop st_segs]. intros E'. destruct (B E') as [E0|[r [Hr Hs]]]; [left; exact E0|].
          right. exists r. split; [|exact Hs]. rewrite executed_app. apply in_or_app. right.
          destruct ran; [destruct Hr|]. unfold executed. cbn [flat_map seg_rules]. rewrite app_nil_r. exact Hr.
        * cbn [st_segs]. intros r Hr. rewrite executed_app. apply in_or_app. left. exact Hr.
      + (* IPar *)
        rewrite ex_par. destruct (window c (base_list c s b) w) as [l|]; [|apply (same_tag_segs s); auto].
        destruct (negb waited); [apply (same_tag_segs s); auto|].
        destruct (negb (Z.eqb (count c (base_list c s b) c0) (zlen l))).
        * destruct (push_seg_tag s (Par l)) as [A B].
          apply (explained_weaken s); [exact P| |].
          -- change (st_stop (set_stat (push_seg s (Par l)) Stuck)) with (st_stop (push_seg s (Par l))). rewrite A. intros E'. left. exact E'.
          -- change (st_segs (set_stat (push_seg s (Par l)) Stuck)) with (st_segs (push_seg s (Par l))). intros r Hr. rewrite B. apply in_or_app. left. exact Hr.
        * destruct (par_run_tag l s) as [A B].
          destruct (push_seg_tag (par_run l s) (Par l)) as [C D].
          apply (explained_weaken s); [exact P| |].
          -- rewrite C, B. intros E'. apply orb_true_iff in E'. destruct E' as [E'|E']; [left; exact E'|].
             apply existsb_exists in E'. destruct E' as [r [Hr Hs]]. right. exists r. split; [|exact Hs].
             rewrite D. apply in_or_app. right. exact Hr.
          -- intros r Hr. rewrite D, A. apply in_or_app. left. exact Hr.
      + cbn. destruct (st_errs s); [apply (same_tag_segs s); auto|exact P].
      + cbn. destruct (negb (c_b c) && st_errs s)%bool; [apply (same_tag_segs s); auto|exact P].
      + apply (same_tag_segs s); auto.
      + apply (same_tag_segs s); auto.
    - intros s P. rewrite ex_cond. destruct (eval_cond c s k); [apply exec_list_explained; assumption|exact P].
    - intros s P. rewrite ex_ifns. destruct (st_stop s); [exact P|apply exec_list_explained; assumption].
    - intros s P. rewrite ex_for. generalize (c_layers c). intro ls. revert s P.
      induction ls as [|ly ls IH]; intros s P; [exact P|]. cbn [fold_left]. apply IH.
      destruct (st_stat s); try exact P. apply exec_list_explained; [assumption|]. apply (same_tag_segs s); auto.
  Qed.

  Theorem program_explained p : forall s, tag_explained s -> tag_explained (exec_list c p s).
  Proof. apply exec_list_explained. apply Forall_forall. intros i _. apply exec_explained. Qed.
End Tag.

(* the statement about calls *)
Definition final_stop (p : list instr) (c : cfg) : bool := st_stop (exec_list c p (init_state c)).

Theorem the_engine_never_sets_the_tag p c :
  final_stop p c = true -> c_stop0 c = true \/ exists r, In r (executed (o_segs (run_prog p c))) /\ estop r = true.
Proof.
  unfold final_stop, run_prog. cbn [o_segs]. apply program_explained.
  unfold tag_explained, init_state. cbn. intros E. left. exact E.
Qed.
