(* Engine/Meaning.v — what the outcome of a call means in terms of the traces
   (over every goroutine interleaving) it can produce. Helper definitions and the lemmas
   the property files Props/C04, C05, C11–C14 are one-line consequences of. *)
From Coq Require Import String List ZArith Bool Lia Permutation.
From GV Require Import Engine.IR Engine.Hand Engine.Spec Engine.Trace Engine.Sound Engine.TraceFacts.
Import ListNotations.

(* ------------------------------------------------------------------ *)
(* vocabulary of the property files *)

(* t is a trace of the call of entry e in configuration c, under some goroutine interleaving *)
Definition tr (e : entry) (c : cfg) (t : list ev) : Prop := traces (o_segs (run_prog (hand e) c)) t.
(* the call returns a non-nil error *)
Definition call_err (e : entry) (c : cfg) : bool := o_err (run_prog (hand e) c).
(* the rules the call executes, stage after stage *)
Definition ran (e : entry) (c : cfg) : list erule := executed (o_segs (run_prog (hand e) c)).
(* the prefix of l that ends with the first failing rule (all of l when none fails) *)
Fixpoint upto_fail (l : list erule) : list erule :=
  match l with [] => [] | r :: l' => if efail r then [r] else r :: upto_fail l' end.

Definition dummy_rule : erule := mkER "" 0 false false false None.

(* ------------------------------------------------------------------ *)
(* the call is the documented outcome *)
Lemma segs_spec e c : o_segs (run_prog (hand e) c) = fst (spec e c).
Proof. rewrite hand_sound. unfold spec_outcome. destruct (spec e c); reflexivity. Qed.
Lemma err_spec e c : call_err e c = snd (spec e c).
Proof. unfold call_err. rewrite hand_sound. unfold spec_outcome. destruct (spec e c); reflexivity. Qed.
Lemma tr_spec e c t : tr e c t <-> traces (fst (spec e c)) t.
Proof. unfold tr. now rewrite segs_spec. Qed.
Lemma ran_spec e c : ran e c = executed (fst (spec e c)).
Proof. unfold ran. now rewrite segs_spec. Qed.

(* ------------------------------------------------------------------ *)
(* upto_fail *)
Lemma sort_prefix_upto s l : sort_prefix false false s l = upto_fail l.
Proof.
  revert s; induction l as [|r l IH]; intro s; [reflexivity|].
  cbn [sort_prefix upto_fail andb negb]. rewrite andb_true_r.
  destruct (efail r); [reflexivity|]. now rewrite IH.
Qed.

Lemma sort_prefix_notag_eq b s l : sort_prefix b false s l = if b then l else upto_fail l.
Proof. destruct b; [apply sort_prefix_true_notag | apply sort_prefix_upto]. Qed.

Lemma upto_fail_prefix l : exists rest, l = upto_fail l ++ rest.
Proof.
  induction l as [|r l [rest IH]]; [exists []; reflexivity|].
  cbn [upto_fail]. destruct (efail r).
  - exists l. reflexivity.
  - exists rest. cbn [app]. now rewrite <- IH.
Qed.

Lemma upto_fail_init_ok l : forall r, In r (removelast (upto_fail l)) -> efail r = false.
Proof.
  induction l as [|x l IH]; intros r H; [destruct H|].
  cbn [upto_fail] in H. destruct (efail x) eqn:E; [destruct H|].
  cbn [removelast] in H. destruct (upto_fail l) eqn:U; [destruct H|].
  destruct H as [<-|H]; [exact E | apply IH, H].
Qed.

Lemma any_fail_upto l : any_fail (upto_fail l) = any_fail l.
Proof. rewrite <- (sort_prefix_upto false). apply any_fail_prefix. Qed.

Lemma upto_fail_nonnil l : l <> [] -> upto_fail l <> [].
Proof. destruct l as [|r l]; [congruence|]. intros _. cbn [upto_fail]. destruct (efail r); discriminate. Qed.

Lemma upto_fail_last_fails l d : any_fail l = true -> efail (last (upto_fail l) d) = true.
Proof.
  induction l as [|x l IH]; [discriminate|].
  cbn [any_fail existsb upto_fail]. destruct (efail x) eqn:E; cbn [orb]; intro H.
  - exact E.
  - cbn [last]. destruct (upto_fail l) eqn:U.
    + destruct l; [discriminate H|]. exfalso. revert U. apply upto_fail_nonnil. discriminate.
    + apply IH, H.
Qed.

Lemma upto_fail_nofail l : any_fail l = false -> upto_fail l = l.
Proof. intro H. rewrite <- (sort_prefix_upto false). now apply sort_prefix_nofail. Qed.

(* prefix, nothing failing before the last, the last fails when anything fails *)
Lemma upto_fail_meaning l :
  (exists rest, l = upto_fail l ++ rest) /\
  (forall r, In r (removelast (upto_fail l)) -> efail r = false) /\
  (any_fail l = true ->
   upto_fail l <> [] /\ forall d, In (last (upto_fail l) d) (upto_fail l) /\ efail (last (upto_fail l) d) = true) /\
  (any_fail l = false -> upto_fail l = l).
Proof.
  split; [apply upto_fail_prefix|]. split; [apply upto_fail_init_ok|]. split; [|apply upto_fail_nofail].
  intro H. assert (N : upto_fail l <> []).
  { apply upto_fail_nonnil. intros ->. discriminate. }
  split; [exact N|]. intro d. split; [|now apply upto_fail_last_fails].
  destruct (exists_last N) as (p & x & E). rewrite E, last_last. apply in_or_app. right. now left.
Qed.

Lemma any_fail_iff l : any_fail l = true <-> exists r, In r l /\ efail r = true.
Proof. apply existsb_exists. Qed.

(* ------------------------------------------------------------------ *)
(* sorted_desc_e *)
Lemma sorted_desc_prefix a b : sorted_desc_e (a ++ b) -> sorted_desc_e a.
Proof.
  induction a as [|x a IH]; [intros _; exact I|].
  cbn [app sorted_desc_e]. intros [H1 H2]. split; [|apply IH, H2].
  intros y Hy. apply H1, in_or_app. now left.
Qed.

Lemma sort_prefix_prefix b tag s l : exists rest, l = sort_prefix b tag s l ++ rest.
Proof.
  revert s; induction l as [|r l IH]; intro s; [exists []; reflexivity|].
  cbn [sort_prefix]. destruct (efail r && negb b)%bool; [exists l; reflexivity|].
  destruct (tag && (s || estop r))%bool; [exists l; reflexivity|].
  destruct (IH (s || estop r)%bool) as [rest E]. exists rest. cbn [app]. now rewrite <- E.
Qed.

(* ------------------------------------------------------------------ *)
(* traces: empty stages, single stages, two stages *)
Lemma interleave_nil_inv A (t : list A) : Interleave [] t -> t = [].
Proof.
  intro H. remember (@nil (list A)) as ls eqn:E. destruct H; [reflexivity|].
  destruct pre; discriminate.
Qed.

Lemma traces_ne segs : forall t, traces (ne segs) t <-> traces segs t.
Proof.
  induction segs as [|g segs IH]; intro t; [reflexivity|].
  destruct g as [[|r l]|[|r l]]; unfold ne in *; cbn [filter].
  - rewrite IH. simpl. split.
    + intro H. exists t. auto.
    + intros (t2 & -> & H). exact H.
  - simpl. split; intros (t2 & -> & H); exists t2; (split; [reflexivity|]); now apply IH.
  - rewrite IH. simpl. split.
    + intro H. exists [], t. repeat split; auto. apply IL_nil. constructor.
    + intros (t1 & t2 & -> & Hi & H). apply interleave_nil_inv in Hi. now subst t1.
  - cbn [traces]. split; intros (t1 & t2 & -> & Hi & H); exists t1, t2; (repeat split; auto); now apply IH.
Qed.

Lemma traces_par l t : traces [Par l] t <-> Interleave (map rule_evs l) t.
Proof.
  simpl. split.
  - intros (t1 & t2 & -> & H & ->). now rewrite app_nil_r.
  - intro H. exists t, []. rewrite app_nil_r. auto.
Qed.

Lemma traces_two A B t :
  traces [A; B] t <-> exists t1 t2, t = t1 ++ t2 /\ traces [A] t1 /\ traces [B] t2.
Proof. apply (traces_app [A] [B]). Qed.

Lemma traces_nil t : traces [] t <-> t = [].
Proof. reflexivity. Qed.

Lemma traces_seq_par l1 l2 t :
  traces [Seq l1; Par l2] t <->
  exists t1 t2, t = t1 ++ t2 /\ t1 = flat_map rule_evs l1 /\ Interleave (map rule_evs l2) t2.
Proof. rewrite traces_two. setoid_rewrite traces_seq. setoid_rewrite traces_par. reflexivity. Qed.
Lemma traces_par_seq l1 l2 t :
  traces [Par l1; Seq l2] t <->
  exists t1 t2, t = t1 ++ t2 /\ Interleave (map rule_evs l1) t1 /\ t2 = flat_map rule_evs l2.
Proof. rewrite traces_two. setoid_rewrite traces_seq. setoid_rewrite traces_par. reflexivity. Qed.
Lemma traces_par_par l1 l2 t :
  traces [Par l1; Par l2] t <->
  exists t1 t2, t = t1 ++ t2 /\ Interleave (map rule_evs l1) t1 /\ Interleave (map rule_evs l2) t2.
Proof. rewrite traces_two. setoid_rewrite traces_par. reflexivity. Qed.

(* ------------------------------------------------------------------ *)
(* the sorted (one at a time) stage *)
Lemma sorted_stage_traces b c l t :
  traces (fst (sorted_stage b false c l)) t <-> t = flat_map rule_evs (if b then l else upto_fail l).
Proof. unfold sorted_stage. cbn [fst]. now rewrite traces_ne, traces_seq, sort_prefix_notag_eq. Qed.
Lemma sorted_stage_err b c l : snd (sorted_stage b false c l) = any_fail l.
Proof.
  unfold sorted_stage; cbn [snd]. rewrite sort_prefix_notag_eq.
  destruct b; [reflexivity | apply any_fail_upto].
Qed.
Lemma sorted_stage_executed b tag c l :
  executed (fst (sorted_stage b tag c l)) = sort_prefix b tag (c_stop0 c) l.
Proof. unfold sorted_stage; cbn [fst]. rewrite executed_ne. unfold executed. cbn. apply app_nil_r. Qed.

Lemma is_nil_false {A} [l : list A] : l <> [] -> is_nil l = false.
Proof. destruct l; [congruence | reflexivity]. Qed.
Lemma is_nil_true {A} (l : list A) : l = [] -> is_nil l = true.
Proof. now intros ->. Qed.
Lemma sort_desc_nil_inv [l] : sort_desc l <> [] -> l <> [].
Proof. intros H ->. now apply H. Qed.

(* ---------- C04 ---------- *)
Lemma execute_meaning c t : c_rules c <> [] -> tr EExecute c t ->
  t = flat_map rule_evs (if c_b c then c_rules c else upto_fail (c_rules c)) /\
  (call_err EExecute c = true <-> exists r, In r (c_rules c) /\ efail r = true).
Proof.
  intros N H. apply tr_spec in H. rewrite err_spec. cbn [spec] in *.
  rewrite (is_nil_false N) in *. apply sorted_stage_traces in H.
  split; [exact H|]. rewrite sorted_stage_err. apply any_fail_iff.
Qed.

Lemma execute_continue c t : c_rules c <> [] -> c_b c = true -> tr EExecute c t ->
  t = flat_map rule_evs (c_rules c) /\
  (call_err EExecute c = true <-> exists r, In r (c_rules c) /\ efail r = true).
Proof. intros N B H. destruct (execute_meaning c t N H) as [E1 E2]. rewrite B in E1. auto. Qed.

Lemma execute_stop c t : c_rules c <> [] -> c_b c = false -> tr EExecute c t ->
  t = flat_map rule_evs (upto_fail (c_rules c)) /\
  (call_err EExecute c = true <-> exists r, In r (c_rules c) /\ efail r = true).
Proof. intros N B H. destruct (execute_meaning c t N H) as [E1 E2]. rewrite B in E1. auto. Qed.

Lemma execute_ran c : ran EExecute c = sort_prefix (c_b c) false (c_stop0 c) (c_rules c).
Proof.
  rewrite ran_spec. cbn [spec]. destruct (c_rules c) eqn:E; [reflexivity|].
  cbn [is_nil]. apply sorted_stage_executed.
Qed.

Lemma execute_ran_prefix c : exists rest, c_rules c = ran EExecute c ++ rest.
Proof. rewrite execute_ran. apply sort_prefix_prefix. Qed.

Lemma execute_priority c : sorted_desc_e (c_rules c) -> sorted_desc_e (ran EExecute c).
Proof.
  intro H. destruct (execute_ran_prefix c) as [rest E]. rewrite E in H.
  eapply sorted_desc_prefix, H.
Qed.

Lemma tr_perm e c t : tr e c t -> Permutation t (flat_map rule_evs (ran e c)).
Proof. apply traces_perm. Qed.

Lemma execute_each_once c t : tr EExecute c t ->
  Permutation t (flat_map rule_evs (ran EExecute c)) /\ exists rest, c_rules c = ran EExecute c ++ rest.
Proof. intro H. split; [now apply tr_perm | apply execute_ran_prefix]. Qed.

Lemma selected_rules_meaning c t :
  let l := sort_desc (sel c (c_names c)) in
  l <> [] -> tr EExecuteSelectedRules c t ->
  t = flat_map rule_evs l /\ sorted_desc_e l /\ Permutation l (sel c (c_names c)).
Proof.
  intros l N H. apply tr_spec in H. cbn [spec] in H.
  rewrite (is_nil_false (sort_desc_nil_inv N)) in H. apply sorted_stage_traces in H.
  split; [exact H|]. split; [apply sort_desc_sorted | apply sort_desc_perm].
Qed.

Lemma selected_with_control_meaning c t :
  let l := sort_desc (sel c (c_names c)) in
  l <> [] -> tr EExecuteSelectedRulesWithControl c t ->
  t = flat_map rule_evs (if c_b c then l else upto_fail l) /\ sorted_desc_e l /\ Permutation l (sel c (c_names c)).
Proof.
  intros l N H. apply tr_spec in H. cbn [spec] in H.
  rewrite (is_nil_false (sort_desc_nil_inv N)) in H. apply sorted_stage_traces in H.
  split; [exact H|]. split; [apply sort_desc_sorted | apply sort_desc_perm].
Qed.

Lemma execute_empty c : c_rules c = [] -> ran EExecute c = [] /\ call_err EExecute c = true.
Proof. intro E. rewrite ran_spec, err_spec. cbn [spec]. rewrite E. auto. Qed.

(* ---------- C14: stop tag ---------- *)
Lemma spec_eq_run e1 e2 c : spec e1 c = spec e2 c -> run_prog (hand e1) c = run_prog (hand e2) c.
Proof. intro E. rewrite !hand_sound. unfold spec_outcome. now rewrite E. Qed.

Lemma sort_prefix_tag_unset b l : forall s,
  (forall r, In r l -> estop r = false) -> sort_prefix b true false l = sort_prefix b false s l.
Proof.
  induction l as [|r l IH]; intros s H; [reflexivity|].
  cbn [sort_prefix andb orb]. rewrite (H r (or_introl eq_refl)).
  rewrite <- (IH (s || false)%bool); [reflexivity|]. intros x Hx. apply H. now right.
Qed.

Lemma sorted_stage_tag_unset b c l :
  c_stop0 c = false -> (forall r, In r l -> estop r = false) ->
  sorted_stage b true c l = sorted_stage b false c l.
Proof.
  intros S H. unfold sorted_stage. rewrite S.
  now rewrite (sort_prefix_tag_unset b l false H).
Qed.

Lemma mix_stage_tag_unset c l :
  c_stop0 c = false -> (forall r, In r l -> estop r = false) ->
  mix_stage true c l = mix_stage false c l.
Proof.
  intros S H. destruct l as [|r0 rest]; [reflexivity|]. cbn [mix_stage].
  rewrite S, (H r0 (or_introl eq_refl)). reflexivity.
Qed.

Lemma find_rule_some n l r : find_rule n l = Some r -> In r l /\ en r = n.
Proof.
  induction l as [|x l IH]; [discriminate|]. cbn [find_rule].
  destruct (String.eqb (en x) n) eqn:E.
  - intros [= ->]. split; [now left | now apply String.eqb_eq].
  - intro H. destruct (IH H). split; [now right | assumption].
Qed.

Lemma sel_in c names r :
  In r (sel c names) -> In (en r) names /\ find_rule (en r) (c_rules c) = Some r.
Proof.
  unfold sel. intro H. apply in_flat_map in H. destruct H as (n & Hn & H).
  destruct (find_rule n (c_rules c)) eqn:F; [|destruct H].
  destruct H as [<-|[]]. destruct (find_rule_some _ _ _ F) as [_ E]. now rewrite E.
Qed.

Lemma sel_in_rules c names r : In r (sel c names) -> In r (c_rules c).
Proof. intro H. apply sel_in in H. destruct H as [_ H]. now apply find_rule_some in H. Qed.

Lemma sort_sel_in_rules c names r : In r (sort_desc (sel c names)) -> In r (c_rules c).
Proof. intro H. eapply sel_in_rules, Permutation_in; [apply sort_desc_perm | exact H]. Qed.

Section StopTagUnset.
  Variable c : cfg.
  Hypothesis S : c_stop0 c = false.
  Hypothesis H : forall r, In r (c_rules c) -> estop r = false.

  Lemma stoptag_unset_execute :
    run_prog (hand EExecuteWithStopTagDirect) c = run_prog (hand EExecute) c.
  Proof. apply spec_eq_run. cbn [spec]. now rewrite sorted_stage_tag_unset. Qed.

  Lemma stoptag_unset_mix :
    run_prog (hand EExecuteMixModelWithStopTagDirect) c = run_prog (hand EExecuteMixModel) c.
  Proof. apply spec_eq_run. cbn [spec]. now rewrite mix_stage_tag_unset. Qed.

  Lemma stoptag_unset_selected :
    run_prog (hand EExecuteSelectedRulesWithControlAndStopTag) c =
    run_prog (hand EExecuteSelectedRulesWithControl) c.
  Proof.
    apply spec_eq_run. cbn [spec]. rewrite sorted_stage_tag_unset; auto.
    intros r Hr. eapply H, sort_sel_in_rules, Hr.
  Qed.

  Lemma stoptag_unset_selected_as_given :
    run_prog (hand EExecuteSelectedRulesWithControlAndStopTagAsGivenSortedName) c =
    run_prog (hand EExecuteSelectedRulesWithControlAsGivenSortedName) c.
  Proof.
    apply spec_eq_run. cbn [spec]. rewrite sorted_stage_tag_unset; auto.
    intros r Hr. eapply H, sel_in_rules, Hr.
  Qed.
End StopTagUnset.

(* with the stop tag honoured: every rule before the last executed one left the tag unset (and it
   was unset when the call started); the executed rules are a prefix of the list *)
Lemma sort_prefix_tag_meaning b l : forall s,
  let p := sort_prefix b true s l in
  (forall x, In x (removelast p) -> estop x = false /\ s = false) /\ exists rest, l = p ++ rest.
Proof.
  intros s p. split; [|apply sort_prefix_prefix]. subst p. revert s.
  induction l as [|r l IH]; intros s x Hx; [destruct Hx|].
  cbn [sort_prefix andb] in Hx. destruct (efail r && negb b)%bool; [destruct Hx|].
  destruct (s || estop r)%bool eqn:E; [destruct Hx|].
  apply orb_false_elim in E. destruct E as [-> E].
  destruct (sort_prefix b true false l) eqn:P; [destruct Hx|].
  change (In x (r :: removelast (e :: l0))) in Hx.
  destruct Hx as [<-|Hx]; [auto|]. rewrite <- P in Hx. apply IH in Hx. destruct Hx as [Hx _]. auto.
Qed.

Lemma stoptag_ran_execute c :
  ran EExecuteWithStopTagDirect c = sort_prefix (c_b c) true (c_stop0 c) (c_rules c).
Proof.
  rewrite ran_spec. cbn [spec]. destruct (c_rules c) eqn:E; [reflexivity|].
  cbn [is_nil]. apply sorted_stage_executed.
Qed.

Lemma mix_first_sets_tag c r0 rest :
  c_rules c = r0 :: rest -> efail r0 = false -> (c_stop0 c || estop r0)%bool = true ->
  ran EExecuteMixModelWithStopTagDirect c = [r0] /\ call_err EExecuteMixModelWithStopTagDirect c = false.
Proof.
  intros E F T. rewrite ran_spec, err_spec. cbn [spec]. rewrite E. cbn [mix_stage].
  rewrite F, T. auto.
Qed.

(* ---------- C11: result map ---------- *)
Lemma existsb_eqb_in n m : existsb (String.eqb n) m = true <-> In n m.
Proof.
  rewrite existsb_exists. split.
  - intros (x & Hx & E). apply String.eqb_eq in E. now subst.
  - intro H. exists n. split; [exact H | apply String.eqb_refl].
Qed.

Lemma add_key_in acc r n :
  In n (add_key acc r) <-> In n acc \/ (eret r = true /\ en r = n).
Proof.
  unfold add_key. destruct (eret r); [|intuition congruence].
  destruct (existsb (String.eqb (en r)) acc) eqn:E.
  - apply existsb_eqb_in in E. split; [auto|]. intros [H|[_ <-]]; auto.
  - rewrite in_app_iff. cbn [In]. intuition.
Qed.

Lemma fold_add_key_in l : forall acc n,
  In n (fold_left add_key l acc) <-> In n acc \/ exists r, In r l /\ eret r = true /\ en r = n.
Proof.
  induction l as [|x l IH]; intros acc n; cbn [fold_left].
  - split; [auto|]. intros [H|(r & [] & _)]. exact H.
  - rewrite IH, add_key_in. split.
    + intros [[H|[H1 H2]]|(r & Hr & H)]; auto.
      * right. exists x. cbn [In]. auto.
      * right. exists r. cbn [In]. auto.
    + intros [H|(r & [<-|Hr] & H)]; auto. right. exists r. auto.
Qed.

Lemma add_key_nodup acc r : NoDup acc -> NoDup (add_key acc r).
Proof.
  intro N. unfold add_key. destruct (eret r); [|exact N].
  destruct (existsb (String.eqb (en r)) acc) eqn:E; [exact N|].
  apply NoDup_rev in N. rewrite <- (rev_involutive (acc ++ [en r])). apply NoDup_rev.
  rewrite rev_app_distr. cbn [rev app]. constructor; [|exact N].
  intro H. apply in_rev in H. apply existsb_eqb_in in H. congruence.
Qed.

Lemma fold_add_key_nodup l : forall acc, NoDup acc -> NoDup (fold_left add_key l acc).
Proof. induction l as [|x l IH]; intros acc N; [exact N|]. cbn [fold_left]. apply IH, add_key_nodup, N. Qed.

Lemma result_exact e c : exists m,
  o_map (run_prog (hand e) c) = Some m /\
  (forall n, In n (map fst m) <-> exists r, In r (ran e c) /\ eret r = true /\ en r = n) /\
  NoDup (map fst m).
Proof.
  eexists. split; [apply hand_map|]. fold (ran e c).
  change (map fst (result_entries (ran e c))) with (result_keys (ran e c)).
  rewrite result_keys_fold. split.
  - intro n. rewrite fold_add_key_in. cbn [In]. tauto.
  - apply fold_add_key_nodup. constructor.
Qed.

Lemma stoptag_execute_meaning c :
  (forall x, In x (removelast (ran EExecuteWithStopTagDirect c)) -> estop x = false /\ c_stop0 c = false) /\
  exists rest, c_rules c = ran EExecuteWithStopTagDirect c ++ rest.
Proof. rewrite stoptag_ran_execute. apply sort_prefix_tag_meaning. Qed.

(* ---------- C13: DAG ---------- *)
Lemma dag_no_layers c : c_layers c = [] -> ran EExecuteDAGModel c = [] /\ call_err EExecuteDAGModel c = false.
Proof. intro E. rewrite ran_spec, err_spec. cbn [spec]. rewrite E. auto. Qed.

Lemma dag_layer_barrier c ly rest t :
  traces (fst (dag_stage c (ly :: rest))) t ->
  exists t1 t2, t = t1 ++ t2 /\ Interleave (map rule_evs (sel c ly)) t1 /\
    (any_fail (sel c ly) = true -> t2 = [] /\ snd (dag_stage c (ly :: rest)) = true) /\
    (any_fail (sel c ly) = false ->
     traces (fst (dag_stage c rest)) t2 /\ snd (dag_stage c (ly :: rest)) = snd (dag_stage c rest)).
Proof.
  cbn [dag_stage]. destruct (any_fail (sel c ly)) eqn:F.
  - cbn [fst snd]. rewrite traces_ne, traces_par. intro H. exists t, [].
    rewrite app_nil_r. repeat split; auto; discriminate.
  - destruct (dag_stage c rest) as [s e]. cbn [fst snd]. rewrite traces_app.
    intros (t1 & t2 & -> & H1 & H2). rewrite traces_ne, traces_par in H1.
    exists t1, t2. repeat split; auto; discriminate.
Qed.

Lemma dag_is_spec c t : tr EExecuteDAGModel c t <-> traces (fst (dag_stage c (c_layers c))) t.
Proof. apply tr_spec. Qed.
Lemma dag_err_is_spec c : call_err EExecuteDAGModel c = snd (dag_stage c (c_layers c)).
Proof. apply err_spec. Qed.

Lemma sel_unfold c ly :
  sel c ly = flat_map (fun n => match find_rule n (c_rules c) with Some r => [r] | None => [] end) ly.
Proof. reflexivity. Qed.

Lemma executed_par l : executed (ne [Par l]) = l.
Proof. rewrite executed_ne. unfold executed. cbn. apply app_nil_r. Qed.

Lemma dag_stage_err c layers :
  snd (dag_stage c layers) = any_fail (executed (fst (dag_stage c layers))).
Proof.
  induction layers as [|ly rest IH]; [reflexivity|]. cbn [dag_stage].
  destruct (any_fail (sel c ly)) eqn:F.
  - cbn [fst snd]. now rewrite executed_par.
  - destruct (dag_stage c rest) as [s e]. cbn [fst snd] in *.
    now rewrite executed_app, executed_par, any_fail_app, F.
Qed.

Lemma dag_err_iff_executed_failed c : call_err EExecuteDAGModel c = any_fail (ran EExecuteDAGModel c).
Proof. rewrite err_spec, ran_spec. apply dag_stage_err. Qed.

(* ------------------------------------------------------------------ *)
(* which rules a stage can execute *)
Lemma sort_prefix_sub b tag s l r : In r (sort_prefix b tag s l) -> In r l.
Proof.
  intro H. destruct (sort_prefix_prefix b tag s l) as [rest E]. rewrite E.
  apply in_or_app. now left.
Qed.

Lemma upto_fail_sub l r : In r (upto_fail l) -> In r l.
Proof. rewrite <- (sort_prefix_upto false). apply sort_prefix_sub. Qed.

Lemma sorted_stage_sub b tag c l r : In r (executed (fst (sorted_stage b tag c l))) -> In r l.
Proof. rewrite sorted_stage_executed. apply sort_prefix_sub. Qed.

Lemma executed_seq_par l1 l2 : executed (ne [Seq l1; Par l2]) = l1 ++ l2.
Proof. rewrite executed_ne. unfold executed. cbn. now rewrite app_nil_r. Qed.
Lemma executed_par_seq l1 l2 : executed (ne [Par l1; Seq l2]) = l1 ++ l2.
Proof. rewrite executed_ne. unfold executed. cbn. now rewrite app_nil_r. Qed.
Lemma executed_par_par l1 l2 : executed (ne [Par l1; Par l2]) = l1 ++ l2.
Proof. rewrite executed_ne. unfold executed. cbn. now rewrite app_nil_r. Qed.
Lemma executed_seq l : executed (ne [Seq l]) = l.
Proof. rewrite executed_ne. unfold executed. cbn. apply app_nil_r. Qed.

Lemma mix_stage_sub tag c l r : In r (executed (fst (mix_stage tag c l))) -> In r l.
Proof.
  destruct l as [|r0 rest]; [intros []|]. cbn [mix_stage].
  destruct (efail r0); [cbn; tauto|].
  destruct (tag && (c_stop0 c || estop r0))%bool; [cbn; tauto|].
  cbn [fst]. rewrite executed_seq_par. cbn. tauto.
Qed.

Lemma removelast_last_in x (l : list erule) d r :
  In r (removelast (x :: l) ++ [last (x :: l) d]) -> In r (x :: l).
Proof. rewrite <- app_removelast_last by discriminate. tauto. Qed.

Lemma inverse_stage_sub c l r : In r (executed (fst (inverse_stage c l))) -> In r l.
Proof.
  unfold inverse_stage. destruct l as [|x l]; [intros []|].
  destruct (Nat.leb (length (x :: l)) 2); [apply sorted_stage_sub|].
  set (init := removelast (x :: l)). set (lst := last (x :: l) _).
  intro H. apply (removelast_last_in x l dummy_rule). change (In r (init ++ [lst])).
  clearbody init lst. revert H.
  destruct (any_fail init); unfold executed; cbn; rewrite ?app_nil_r; intro H; [|exact H].
  apply in_or_app. now left.
Qed.

Lemma firstn_add {A} (l : list A) : forall a b, firstn (a + b) l = firstn a l ++ firstn b (skipn a l).
Proof.
  induction l as [|x l IH]; intros a b.
  - now rewrite !firstn_nil, skipn_nil, firstn_nil.
  - destruct a as [|a]; [reflexivity|]. cbn. now rewrite IH.
Qed.

Lemma firstn_sub {A} k (l : list A) r : In r (firstn k l) -> In r l.
Proof. intro H. rewrite <- (firstn_skipn k l). apply in_or_app. now left. Qed.

Lemma nm_stage_sub k c l r :
  In r (executed (fst (nm_stage k c l))) -> In r (firstn (Z.to_nat (c_n c) + Z.to_nat (c_m c)) l).
Proof.
  rewrite firstn_add. unfold nm_stage.
  destruct k, (c_b c); try destruct (any_fail (firstn (Z.to_nat (c_n c)) l)); cbn [fst];
    rewrite ?executed_seq_par, ?executed_par_seq, ?executed_par_par, ?executed_seq,
            ?(executed_par (firstn (Z.to_nat (c_n c)) l)); auto;
    rewrite !in_app_iff; intros H; auto.
  - left. eapply sort_prefix_sub, H.
  - destruct H as [H|H]; auto. right. eapply sort_prefix_sub, H.
Qed.

Lemma nm_valid_window c : nm_valid c = true ->
  Z.to_nat (c_n c + c_m c) = (Z.to_nat (c_n c) + Z.to_nat (c_m c))%nat.
Proof.
  unfold nm_valid. intro H. apply andb_prop in H. destruct H as [H _].
  apply andb_prop in H. destruct H as [H1 H2].
  apply Z.ltb_lt in H1. apply Z.ltb_lt in H2. apply Z2Nat.inj_add; lia.
Qed.

(* ---------- C12: selected calls ---------- *)
Lemma sortsel_sub c names r : In r (sort_desc (sel c names)) -> In r (sel c names).
Proof. apply Permutation_in, sort_desc_perm. Qed.

Lemma selected_only e c r :
  In e [EExecuteSelectedRules; EExecuteSelectedRulesWithControl;
        EExecuteSelectedRulesWithControlAsGivenSortedName; EExecuteSelectedRulesWithControlAndStopTag;
        EExecuteSelectedRulesWithControlAndStopTagAsGivenSortedName; EExecuteSelectedRulesConcurrent;
        EExecuteSelectedRulesMixModel; EExecuteSelectedRulesInverseMixModel;
        EExecuteSelectedNSortMConcurrent; EExecuteSelectedNConcurrentMSort;
        EExecuteSelectedNConcurrentMConcurrent] ->
  In r (ran e c) -> In r (sel c (c_names c)).
Proof.
  intro He. rewrite ran_spec.
  repeat (destruct He as [<-|He]); [..|destruct He]; cbn [spec];
    try (destruct (is_nil (sel c (c_names c))); [intros []|]; intro H; apply sorted_stage_sub in H;
         first [exact H | apply sortsel_sub; exact H]);
    try (destruct (nm_sel_valid c); [|intros []]; intro H; apply nm_stage_sub, firstn_sub in H;
         apply sortsel_sub; exact H).
  - destruct (sel c (c_names c)) as [|a [|b s']]; unfold executed; cbn [fst flat_map seg_rules];
      rewrite ?app_nil_r; auto.
  - pose proof (sortsel_sub c (c_names c)) as P. revert P.
    destruct (sel c (c_names c)) as [|a [|b [|d s']]]; intros P.
    + intros [].
    + unfold executed; cbn [fst flat_map seg_rules]; rewrite ?app_nil_r; auto.
    + intro H. apply sorted_stage_sub in H. auto.
    + intro H. apply mix_stage_sub in H. auto.
  - intro H. apply inverse_stage_sub in H. apply sortsel_sub, H.
Qed.

(* ---------- C11: the VALUES of the result map ---------- *)
Lemma dag_stage_sub c layers r : In r (executed (fst (dag_stage c layers))) -> In r (c_rules c).
Proof.
  induction layers as [|ly rest IH]; [intros []|]. cbn [dag_stage].
  destruct (any_fail (sel c ly)).
  - cbn [fst]. rewrite executed_par. apply sel_in_rules.
  - destruct (dag_stage c rest) as [s e]. cbn [fst] in *.
    rewrite executed_app, executed_par, in_app_iff. intros [H|H]; [eapply sel_in_rules, H | apply IH, H].
Qed.

(* every rule a call executes is one of the configured rules *)
Lemma ran_in_rules e c r : In r (ran e c) -> In r (c_rules c).
Proof.
  assert (Sel : In r (sel c (c_names c)) -> In r (c_rules c)) by apply sel_in_rules.
  destruct e;
    try (intro H; apply Sel; revert H; apply selected_only; cbn [In]; tauto);
    rewrite ran_spec; cbn [spec].
  - destruct (is_nil (c_rules c)); [intros []|]. apply sorted_stage_sub.
  - destruct (is_nil (c_rules c)); [intros []|]. apply sorted_stage_sub.
  - destruct (is_nil (c_rules c)); [intros []|]. unfold executed. cbn [fst flat_map seg_rules].
    now rewrite app_nil_r.
  - apply mix_stage_sub.
  - apply mix_stage_sub.
  - apply inverse_stage_sub.
  - destruct (nm_valid c); [|intros []]. intro H. eapply firstn_sub, nm_stage_sub, H.
  - destruct (nm_valid c); [|intros []]. intro H. eapply firstn_sub, nm_stage_sub, H.
  - destruct (nm_valid c); [|intros []]. intro H. eapply firstn_sub, nm_stage_sub, H.
  - apply dag_stage_sub.
Qed.

Lemma nodup_names_inj (l : list erule) : NoDup (map en l) ->
  forall r1 r2, In r1 l -> In r2 l -> en r1 = en r2 -> r1 = r2.
Proof.
  induction l as [|x l IH]; intros N r1 r2 H1 H2 E; [destruct H1|].
  cbn [map] in N. inversion N as [|? ? Hx N']; subst.
  destruct H1 as [<-|H1], H2 as [<-|H2]; auto.
  - exfalso. apply Hx. rewrite E. now apply in_map.
  - exfalso. apply Hx. rewrite <- E. now apply in_map.
Qed.

(* Go's m[k] = w on a map with unique keys *)
Lemma set_entry_in m k w : NoDup (map fst m) -> forall n v,
  In (n, v) (set_entry m k w) <-> (n = k /\ v = w) \/ (n <> k /\ In (n, v) m).
Proof.
  induction m as [|[k' w'] m IH]; intros N n v; cbn [set_entry].
  - cbn [In]. split.
    + intros [[= <- <-]|[]]. left; auto.
    + intros [[-> ->]|[_ []]]. now left.
  - cbn [map fst] in N. inversion N as [|? ? Hnin N']; subst.
    destruct (String.eqb k' k) eqn:E.
    + apply String.eqb_eq in E. subst k'. cbn [In]. split.
      * intros [[= <- <-]|H]; [left; auto|]. right. split; [|right; exact H].
        intros ->. apply Hnin. apply (in_map fst) in H. exact H.
      * intros [[-> ->]|[Hne [[= -> ->]|H]]]; [now left|congruence|now right].
    + apply String.eqb_neq in E. cbn [In]. rewrite (IH N'). split.
      * intros [[= <- <-]|[[-> ->]|[Hne H]]].
        -- right. split; [exact E|now left].
        -- left; auto.
        -- right; split; [exact Hne | now right].
      * intros [[-> ->]|[Hne [[= -> ->]|H]]].
        -- right. left. auto.
        -- now left.
        -- right. right. auto.
Qed.

(* the weakest hypothesis under which "the map binds every rule that ran and returned to ITS
   value" can hold: two executed rules that both return and share a name return the same value
   (otherwise the later store wins and the earlier rule's value is gone) *)
Definition same_name_same_value (l : list erule) : Prop :=
  forall r1 r2, In r1 l -> In r2 l -> eret r1 = true -> eret r2 = true -> en r1 = en r2 -> eval r1 = eval r2.

Lemma result_entries_snoc l x : result_entries (l ++ [x]) = add_entry (result_entries l) x.
Proof. unfold result_entries. now rewrite fold_left_app. Qed.

Lemma result_entries_nodup l : NoDup (map fst (result_entries l)).
Proof.
  change (NoDup (result_keys l)). rewrite result_keys_fold. apply fold_add_key_nodup. constructor.
Qed.

(* every binding comes from a rule that ran, returned, and returned that value — unconditionally *)
Lemma result_entries_from l : forall n v, In (n, v) (result_entries l) ->
  exists r, In r l /\ eret r = true /\ en r = n /\ eval r = v.
Proof.
  induction l as [|x l IH] using rev_ind; intros n v; [intros []|].
  rewrite result_entries_snoc. unfold add_entry. intro H.
  assert (Old : In (n, v) (result_entries l) -> exists r, In r (l ++ [x]) /\ eret r = true /\ en r = n /\ eval r = v).
  { intro H'. destruct (IH n v H') as (r & Hr & P). exists r. split; [apply in_or_app; now left | exact P]. }
  destruct (eret x) eqn:Ex; [|auto].
  apply (set_entry_in _ _ _ (result_entries_nodup l)) in H. destruct H as [[-> ->]|[_ H]]; [|auto].
  exists x. split; [apply in_or_app; right; now left | auto].
Qed.

Lemma result_entries_values l : same_name_same_value l ->
  forall n v, In (n, v) (result_entries l) <-> exists r, In r l /\ eret r = true /\ en r = n /\ eval r = v.
Proof.
  intros C n v. split; [apply result_entries_from|]. revert C n v.
  induction l as [|x l IH] using rev_ind; intros C n v (r & Hr & Er & Hn & Ev); [destruct Hr|].
  assert (C' : same_name_same_value l).
  { intros a b Ha Hb. apply C; apply in_or_app; now left. }
  assert (Hx : In x (l ++ [x])) by (apply in_or_app; right; now left).
  rewrite result_entries_snoc. unfold add_entry. apply in_app_or in Hr.
  destruct (eret x) eqn:Ex.
  - apply (set_entry_in _ _ _ (result_entries_nodup l)).
    destruct (string_dec n (en x)) as [E|E].
    + left. split; [exact E|]. rewrite <- Ev.
      apply (C r x); [apply in_or_app; exact Hr | exact Hx | exact Er | exact Ex | congruence].
    + right. split; [exact E|]. destruct Hr as [Hr|[<-|[]]]; [|congruence].
      apply (IH C'). exists r. auto.
  - destruct Hr as [Hr|[<-|[]]]; [|congruence]. apply (IH C'). exists r. auto.
Qed.

Lemma result_values_gen e c : same_name_same_value (ran e c) -> exists m,
  o_map (run_prog (hand e) c) = Some m /\
  forall n v, In (n, v) m <-> exists r, In r (ran e c) /\ eret r = true /\ en r = n /\ eval r = v.
Proof.
  intro C. eexists. split; [apply hand_map|]. fold (ran e c). now apply result_entries_values.
Qed.

Lemma result_values_from e c m n v :
  o_map (run_prog (hand e) c) = Some m -> In (n, v) m ->
  exists r, In r (ran e c) /\ eret r = true /\ en r = n /\ eval r = v.
Proof. rewrite hand_map. intros [= <-]. apply result_entries_from. Qed.

Lemma nodup_same_name_same_value e c : NoDup (map en (c_rules c)) -> same_name_same_value (ran e c).
Proof.
  intros N r1 r2 H1 H2 _ _ E. f_equal.
  apply (nodup_names_inj _ N); [eapply ran_in_rules, H1 | eapply ran_in_rules, H2 | exact E].
Qed.

Lemma result_values e c : NoDup (map en (c_rules c)) -> exists m,
  o_map (run_prog (hand e) c) = Some m /\
  forall n v, In (n, v) m <-> exists r, In r (ran e c) /\ eret r = true /\ en r = n /\ eval r = v.
Proof. intro N. apply result_values_gen, nodup_same_name_same_value, N. Qed.

Lemma bare_return_binds_nil e c m r : NoDup (map en (c_rules c)) ->
  o_map (run_prog (hand e) c) = Some m ->
  In r (ran e c) -> eret r = true -> eval r = None -> In (en r, None) m.
Proof.
  intros N Hm Hr Er Ev. destruct (result_values e c N) as (m' & Hm' & H).
  rewrite Hm in Hm'. injection Hm' as <-. apply H. exists r. auto.
Qed.

Lemma as_given_ran c :
  ran EExecuteSelectedRulesWithControlAsGivenSortedName c =
  if c_b c then sel c (c_names c) else upto_fail (sel c (c_names c)).
Proof.
  rewrite ran_spec. cbn [spec]. destruct (sel c (c_names c)) eqn:E; [destruct (c_b c); reflexivity|].
  cbn [is_nil]. rewrite sorted_stage_executed. apply sort_prefix_notag_eq.
Qed.

Lemma as_given_continue c : c_b c = true ->
  ran EExecuteSelectedRulesWithControlAsGivenSortedName c = sel c (c_names c).
Proof. intro B. rewrite as_given_ran. now rewrite B. Qed.
Lemma as_given_stop c : c_b c = false ->
  ran EExecuteSelectedRulesWithControlAsGivenSortedName c = upto_fail (sel c (c_names c)).
Proof. intro B. rewrite as_given_ran. now rewrite B. Qed.

Lemma selected_rules_ran c : ran EExecuteSelectedRules c = sort_desc (sel c (c_names c)).
Proof.
  rewrite ran_spec. cbn [spec]. destruct (sel c (c_names c)) eqn:E; [reflexivity|].
  cbn [is_nil]. rewrite sorted_stage_executed. apply sort_prefix_true_notag.
Qed.

Lemma sorted_order c :
  Permutation (sort_desc (sel c (c_names c))) (sel c (c_names c)) /\
  sorted_desc_e (sort_desc (sel c (c_names c))).
Proof. split; [apply sort_desc_perm | apply sort_desc_sorted]. Qed.

Lemma none_selected e c :
  In e [EExecuteSelectedRules; EExecuteSelectedRulesWithControl;
        EExecuteSelectedRulesWithControlAsGivenSortedName; EExecuteSelectedRulesWithControlAndStopTag;
        EExecuteSelectedRulesWithControlAndStopTagAsGivenSortedName; EExecuteSelectedRulesConcurrent;
        EExecuteSelectedRulesMixModel; EExecuteSelectedRulesInverseMixModel] ->
  sel c (c_names c) = [] -> ran e c = [] /\ call_err e c = true.
Proof.
  intros He E. rewrite ran_spec, err_spec.
  repeat (destruct He as [<-|He]); [..|destruct He]; cbn [spec]; rewrite E; cbn; auto.
Qed.

Lemma nm_selected_strict e c :
  In e [EExecuteSelectedNSortMConcurrent; EExecuteSelectedNConcurrentMSort;
        EExecuteSelectedNConcurrentMConcurrent] ->
  nm_sel_valid c = false -> ran e c = [] /\ call_err e c = true.
Proof.
  intros He E. rewrite ran_spec, err_spec.
  repeat (destruct He as [<-|He]); [..|destruct He]; cbn [spec]; rewrite E; cbn; auto.
Qed.

Lemma nm_sel_invalid_unknown c : all_known c (c_names c) = false -> nm_sel_valid c = false.
Proof. intro H. unfold nm_sel_valid. rewrite H. apply andb_false_r. Qed.
Lemma nm_sel_invalid_count c : (c_n c + c_m c)%Z <> zlen (c_names c) -> nm_sel_valid c = false.
Proof.
  intro H. unfold nm_sel_valid. apply Z.eqb_neq in H. rewrite H.
  now rewrite andb_false_r.
Qed.
Lemma nm_sel_invalid_window c : nm_valid c = false -> nm_sel_valid c = false.
Proof. intro H. unfold nm_sel_valid. now rewrite H. Qed.

(* ---------- C05: mix, inverse mix, N-M ---------- *)
Lemma mix_stage_meaning c r0 rest t :
  traces (fst (mix_stage false c (r0 :: rest))) t ->
  exists t2, t = rule_evs r0 ++ t2 /\
    (efail r0 = true -> t2 = [] /\ snd (mix_stage false c (r0 :: rest)) = true) /\
    (efail r0 = false ->
     Interleave (map rule_evs rest) t2 /\ snd (mix_stage false c (r0 :: rest)) = any_fail rest).
Proof.
  cbn [mix_stage]. destruct (efail r0).
  - cbn [fst snd]. rewrite traces_seq. intros ->. exists []. repeat split; auto; discriminate.
  - cbn [andb fst snd]. rewrite traces_ne, traces_seq_par. intros (t1 & t2 & -> & -> & H).
    exists t2. split; [cbn; reflexivity|]. split; [discriminate | auto].
Qed.

Lemma mix_meaning c r0 rest t :
  c_rules c = r0 :: rest -> tr EExecuteMixModel c t ->
  exists t2, t = rule_evs r0 ++ t2 /\
    (efail r0 = true -> t2 = [] /\ call_err EExecuteMixModel c = true) /\
    (efail r0 = false ->
     Interleave (map rule_evs rest) t2 /\ call_err EExecuteMixModel c = any_fail rest).
Proof.
  intros E H. apply tr_spec in H. rewrite err_spec. cbn [spec] in *. rewrite E in *.
  apply mix_stage_meaning, H.
Qed.

Lemma mix_selected_meaning c r0 r1 r2 rest' t :
  sort_desc (sel c (c_names c)) = r0 :: r1 :: r2 :: rest' ->
  tr EExecuteSelectedRulesMixModel c t ->
  let rest := r1 :: r2 :: rest' in
  exists t2, t = rule_evs r0 ++ t2 /\
    (efail r0 = true -> t2 = [] /\ call_err EExecuteSelectedRulesMixModel c = true) /\
    (efail r0 = false ->
     Interleave (map rule_evs rest) t2 /\ call_err EExecuteSelectedRulesMixModel c = any_fail rest).
Proof.
  intros E H rest. apply tr_spec in H. rewrite err_spec. cbn [spec] in *.
  pose proof (sort_desc_length (sel c (c_names c))) as L. rewrite E in L.
  remember (sel c (c_names c)) as s eqn:S in *. clear S.
  destruct s as [|a [|b [|d s']]]; try discriminate L.
  rewrite E in *. apply mix_stage_meaning, H.
Qed.

Lemma inverse_stage_meaning c l t :
  (3 <= length l)%nat -> traces (fst (inverse_stage c l)) t ->
  let init := removelast l in
  let lst := last l (mkER "" 0 false false false None) in
  exists t1 t2, t = t1 ++ t2 /\ Interleave (map rule_evs init) t1 /\
    (any_fail init = true -> t2 = [] /\ snd (inverse_stage c l) = true) /\
    (any_fail init = false -> t2 = rule_evs lst /\ snd (inverse_stage c l) = efail lst).
Proof.
  intros L. unfold inverse_stage. destruct l as [|x l]; [cbn in L; lia|].
  destruct (Nat.leb (length (x :: l)) 2) eqn:Q; [apply Nat.leb_le in Q; lia|].
  set (init := removelast (x :: l)). set (lst := last (x :: l) _). clearbody init lst.
  destruct (any_fail init); cbn [fst snd].
  - rewrite traces_par. intros H. exists t, []. rewrite app_nil_r.
    repeat split; auto; discriminate.
  - rewrite traces_par_seq. intros (t1 & t2 & -> & H1 & ->). exists t1, (flat_map rule_evs [lst]).
    repeat split; auto; try discriminate.
Qed.

Lemma inverse_stage_small c l t :
  (1 <= length l <= 2)%nat -> traces (fst (inverse_stage c l)) t ->
  t = flat_map rule_evs (upto_fail l) /\ snd (inverse_stage c l) = any_fail l.
Proof.
  intros L. unfold inverse_stage. destruct l as [|x l]; [cbn in L; lia|].
  destruct (Nat.leb (length (x :: l)) 2) eqn:Q; [|apply Nat.leb_gt in Q; lia].
  rewrite sorted_stage_traces, sorted_stage_err. auto.
Qed.

Lemma inverse_meaning c t :
  (3 <= length (c_rules c))%nat -> tr EExecuteInverseMixModel c t ->
  let init := removelast (c_rules c) in
  let lst := last (c_rules c) (mkER "" 0 false false false None) in
  exists t1 t2, t = t1 ++ t2 /\ Interleave (map rule_evs init) t1 /\
    (any_fail init = true -> t2 = [] /\ call_err EExecuteInverseMixModel c = true) /\
    (any_fail init = false -> t2 = rule_evs lst /\ call_err EExecuteInverseMixModel c = efail lst).
Proof. intros L H. apply tr_spec in H. rewrite err_spec. now apply inverse_stage_meaning. Qed.

Lemma inverse_small c t :
  (1 <= length (c_rules c) <= 2)%nat -> tr EExecuteInverseMixModel c t ->
  t = flat_map rule_evs (upto_fail (c_rules c)) /\
  call_err EExecuteInverseMixModel c = any_fail (c_rules c).
Proof. intros L H. apply tr_spec in H. rewrite err_spec. now apply inverse_stage_small. Qed.

Lemma inverse_selected_meaning c t :
  let l := sort_desc (sel c (c_names c)) in
  (3 <= length l)%nat -> tr EExecuteSelectedRulesInverseMixModel c t ->
  let init := removelast l in
  let lst := last l (mkER "" 0 false false false None) in
  exists t1 t2, t = t1 ++ t2 /\ Interleave (map rule_evs init) t1 /\
    (any_fail init = true -> t2 = [] /\ call_err EExecuteSelectedRulesInverseMixModel c = true) /\
    (any_fail init = false ->
     t2 = rule_evs lst /\ call_err EExecuteSelectedRulesInverseMixModel c = efail lst).
Proof. intros l L H. apply tr_spec in H. rewrite err_spec. now apply inverse_stage_meaning. Qed.

Lemma inverse_selected_small c t :
  let l := sort_desc (sel c (c_names c)) in
  (1 <= length l <= 2)%nat -> tr EExecuteSelectedRulesInverseMixModel c t ->
  t = flat_map rule_evs (upto_fail l) /\
  call_err EExecuteSelectedRulesInverseMixModel c = any_fail l.
Proof. intros l L H. apply tr_spec in H. rewrite err_spec. now apply inverse_stage_small. Qed.

(* N-M: the two windows of a list *)
Definition win1 (c : cfg) (l : list erule) : list erule := firstn (Z.to_nat (c_n c)) l.
Definition win2 (c : cfg) (l : list erule) : list erule :=
  firstn (Z.to_nat (c_m c)) (skipn (Z.to_nat (c_n c)) l).

Lemma nm_stage_err k c l :
  snd (nm_stage k c l) =
  if c_b c then any_fail (win1 c l ++ win2 c l)
  else if any_fail (win1 c l) then true else any_fail (win2 c l).
Proof.
  unfold nm_stage, win1, win2.
  destruct k, (c_b c); try reflexivity; destruct (any_fail (firstn (Z.to_nat (c_n c)) l)); reflexivity.
Qed.

Lemma nm_sortconc_meaning c l t :
  traces (fst (nm_stage SortConc c l)) t ->
  exists t1 t2, t = t1 ++ t2 /\
    ((c_b c = true \/ any_fail (win1 c l) = false) ->
     t1 = flat_map rule_evs (win1 c l) /\ Interleave (map rule_evs (win2 c l)) t2) /\
    (c_b c = false -> any_fail (win1 c l) = true ->
     t1 = flat_map rule_evs (upto_fail (win1 c l)) /\ t2 = [] /\ snd (nm_stage SortConc c l) = true) /\
    (c_b c = true -> snd (nm_stage SortConc c l) = any_fail (win1 c l ++ win2 c l)).
Proof.
  unfold nm_stage. fold (win1 c l) (win2 c l). destruct (c_b c).
  - cbn [fst snd]. rewrite traces_ne, traces_seq_par. intros (t1 & t2 & -> & -> & H).
    exists (flat_map rule_evs (win1 c l)), t2. intuition (auto; congruence).
  - destruct (any_fail (win1 c l)); cbn [fst snd].
    + rewrite traces_ne, traces_seq, sort_prefix_upto. intros ->.
      exists (flat_map rule_evs (upto_fail (win1 c l))), []. rewrite app_nil_r.
      intuition (auto; congruence).
    + rewrite traces_ne, traces_seq_par. intros (t1 & t2 & -> & -> & H).
      exists (flat_map rule_evs (win1 c l)), t2. intuition (auto; congruence).
Qed.

Lemma nm_concsort_meaning c l t :
  traces (fst (nm_stage ConcSort c l)) t ->
  exists t1 t2, t = t1 ++ t2 /\ Interleave (map rule_evs (win1 c l)) t1 /\
    (c_b c = true -> t2 = flat_map rule_evs (win2 c l)) /\
    (c_b c = false -> any_fail (win1 c l) = false -> t2 = flat_map rule_evs (upto_fail (win2 c l))) /\
    (c_b c = false -> any_fail (win1 c l) = true ->
     t2 = [] /\ snd (nm_stage ConcSort c l) = true) /\
    (c_b c = true -> snd (nm_stage ConcSort c l) = any_fail (win1 c l ++ win2 c l)).
Proof.
  unfold nm_stage. fold (win1 c l) (win2 c l). destruct (c_b c).
  - cbn [fst snd]. rewrite traces_ne, traces_par_seq. intros (t1 & t2 & -> & H & ->).
    exists t1, (flat_map rule_evs (win2 c l)). intuition (auto; congruence).
  - destruct (any_fail (win1 c l)); cbn [fst snd].
    + rewrite traces_ne, traces_par. intros H. exists t, []. rewrite app_nil_r.
      intuition (auto; congruence).
    + rewrite traces_ne, traces_par_seq, sort_prefix_upto. intros (t1 & t2 & -> & H & ->).
      exists t1, (flat_map rule_evs (upto_fail (win2 c l))). intuition (auto; congruence).
Qed.

Lemma nm_concconc_meaning c l t :
  traces (fst (nm_stage ConcConc c l)) t ->
  exists t1 t2, t = t1 ++ t2 /\ Interleave (map rule_evs (win1 c l)) t1 /\
    ((c_b c = true \/ any_fail (win1 c l) = false) -> Interleave (map rule_evs (win2 c l)) t2) /\
    (c_b c = false -> any_fail (win1 c l) = true ->
     t2 = [] /\ snd (nm_stage ConcConc c l) = true) /\
    (c_b c = true -> snd (nm_stage ConcConc c l) = any_fail (win1 c l ++ win2 c l)).
Proof.
  unfold nm_stage. fold (win1 c l) (win2 c l). destruct (c_b c).
  - cbn [fst snd]. rewrite traces_ne, traces_par_par. intros (t1 & t2 & -> & H & H2).
    exists t1, t2. intuition (auto; congruence).
  - destruct (any_fail (win1 c l)); cbn [fst snd].
    + rewrite traces_ne, traces_par. intros H. exists t, []. rewrite app_nil_r.
      intuition (auto; congruence).
    + rewrite traces_ne, traces_par_par. intros (t1 & t2 & -> & H & H2).
      exists t1, t2. intuition (auto; congruence).
Qed.

Lemma nsort_mconc_meaning c t :
  nm_valid c = true -> tr EExecuteNSortMConcurrent c t ->
  exists t1 t2, t = t1 ++ t2 /\
    ((c_b c = true \/ any_fail (win1 c (c_rules c)) = false) ->
     t1 = flat_map rule_evs (win1 c (c_rules c)) /\ Interleave (map rule_evs (win2 c (c_rules c))) t2) /\
    (c_b c = false -> any_fail (win1 c (c_rules c)) = true ->
     t1 = flat_map rule_evs (upto_fail (win1 c (c_rules c))) /\ t2 = [] /\
     call_err EExecuteNSortMConcurrent c = true) /\
    (c_b c = true ->
     call_err EExecuteNSortMConcurrent c = any_fail (win1 c (c_rules c) ++ win2 c (c_rules c))).
Proof.
  intros V H. apply tr_spec in H. rewrite err_spec. cbn [spec] in *. rewrite V in *.
  now apply nm_sortconc_meaning.
Qed.

Lemma nconc_msort_meaning c t :
  nm_valid c = true -> tr EExecuteNConcurrentMSort c t ->
  exists t1 t2, t = t1 ++ t2 /\ Interleave (map rule_evs (win1 c (c_rules c))) t1 /\
    (c_b c = true -> t2 = flat_map rule_evs (win2 c (c_rules c))) /\
    (c_b c = false -> any_fail (win1 c (c_rules c)) = false ->
     t2 = flat_map rule_evs (upto_fail (win2 c (c_rules c)))) /\
    (c_b c = false -> any_fail (win1 c (c_rules c)) = true ->
     t2 = [] /\ call_err EExecuteNConcurrentMSort c = true) /\
    (c_b c = true ->
     call_err EExecuteNConcurrentMSort c = any_fail (win1 c (c_rules c) ++ win2 c (c_rules c))).
Proof.
  intros V H. apply tr_spec in H. rewrite err_spec. cbn [spec] in *. rewrite V in *.
  now apply nm_concsort_meaning.
Qed.

Lemma nconc_mconc_meaning c t :
  nm_valid c = true -> tr EExecuteNConcurrentMConcurrent c t ->
  exists t1 t2, t = t1 ++ t2 /\ Interleave (map rule_evs (win1 c (c_rules c))) t1 /\
    ((c_b c = true \/ any_fail (win1 c (c_rules c)) = false) ->
     Interleave (map rule_evs (win2 c (c_rules c))) t2) /\
    (c_b c = false -> any_fail (win1 c (c_rules c)) = true ->
     t2 = [] /\ call_err EExecuteNConcurrentMConcurrent c = true) /\
    (c_b c = true ->
     call_err EExecuteNConcurrentMConcurrent c = any_fail (win1 c (c_rules c) ++ win2 c (c_rules c))).
Proof.
  intros V H. apply tr_spec in H. rewrite err_spec. cbn [spec] in *. rewrite V in *.
  now apply nm_concconc_meaning.
Qed.

Lemma nm_err e c :
  In e [EExecuteNSortMConcurrent; EExecuteNConcurrentMSort; EExecuteNConcurrentMConcurrent] ->
  nm_valid c = true ->
  call_err e c =
  if c_b c then any_fail (win1 c (c_rules c) ++ win2 c (c_rules c))
  else if any_fail (win1 c (c_rules c)) then true else any_fail (win2 c (c_rules c)).
Proof.
  intros He V. rewrite err_spec.
  repeat (destruct He as [<-|He]); [..|destruct He]; cbn [spec]; rewrite V; apply nm_stage_err.
Qed.

Lemma nm_invalid e c :
  In e [EExecuteNSortMConcurrent; EExecuteNConcurrentMSort; EExecuteNConcurrentMConcurrent] ->
  nm_valid c = false -> ran e c = [] /\ call_err e c = true.
Proof.
  intros He V. rewrite ran_spec, err_spec.
  repeat (destruct He as [<-|He]); [..|destruct He]; cbn [spec]; rewrite V; cbn; auto.
Qed.

Lemma nm_window_only e c r :
  In e [EExecuteNSortMConcurrent; EExecuteNConcurrentMSort; EExecuteNConcurrentMConcurrent] ->
  nm_valid c = true -> In r (ran e c) ->
  In r (firstn (Z.to_nat (c_n c + c_m c)) (c_rules c)).
Proof.
  intros He V. rewrite ran_spec, (nm_valid_window c V).
  repeat (destruct He as [<-|He]); [..|destruct He]; cbn [spec]; rewrite V; apply nm_stage_sub.
Qed.

Lemma nm_selected_is_stage c :
  nm_sel_valid c = true ->
  let l := sort_desc (sel c (c_names c)) in
  (o_segs (run_prog (hand EExecuteSelectedNSortMConcurrent) c) = fst (nm_stage SortConc c l) /\
   call_err EExecuteSelectedNSortMConcurrent c = snd (nm_stage SortConc c l)) /\
  (o_segs (run_prog (hand EExecuteSelectedNConcurrentMSort) c) = fst (nm_stage ConcSort c l) /\
   call_err EExecuteSelectedNConcurrentMSort c = snd (nm_stage ConcSort c l)) /\
  (o_segs (run_prog (hand EExecuteSelectedNConcurrentMConcurrent) c) = fst (nm_stage ConcConc c l) /\
   call_err EExecuteSelectedNConcurrentMConcurrent c = snd (nm_stage ConcConc c l)).
Proof. intros V l. rewrite !segs_spec, !err_spec. cbn [spec]. rewrite V. auto. Qed.

(* the stage semantics of the three N-M shapes, for any list (used for the selected variants) *)
Definition nm_entry_sel (k : nm_kind) : entry :=
  match k with
  | SortConc => EExecuteSelectedNSortMConcurrent
  | ConcSort => EExecuteSelectedNConcurrentMSort
  | ConcConc => EExecuteSelectedNConcurrentMConcurrent
  end.

Lemma nm_selected_tr k c t :
  nm_sel_valid c = true ->
  (tr (nm_entry_sel k) c t <-> traces (fst (nm_stage k c (sort_desc (sel c (c_names c))))) t).
Proof. intro V. rewrite tr_spec. destruct k; cbn [nm_entry_sel spec]; rewrite V; reflexivity. Qed.

(* ---------- general facts about every entry ---------- *)
Lemma stage_barrier e c t : tr e c t ->
  forall s1 s2, o_segs (run_prog (hand e) c) = s1 ++ s2 ->
  exists t1 t2, t = t1 ++ t2 /\ traces s1 t1 /\ traces s2 t2.
Proof. unfold tr. intros H s1 s2 E. rewrite E in H. now apply traces_app. Qed.

Lemma subseq_nil_l {A} (t : list A) : Subseq [] t.
Proof. induction t; constructor; assumption. Qed.
Lemma subseq_app_l {A} (a p t : list A) : Subseq a t -> Subseq a (p ++ t).
Proof. intro H. induction p; [exact H | now apply Sub_skip]. Qed.
Lemma subseq_app_r {A} (a t q : list A) : Subseq a t -> Subseq a (t ++ q).
Proof.
  intro H. induction H; cbn.
  - apply subseq_nil_l.
  - now apply Sub_skip.
  - now apply Sub_take.
Qed.

Lemma start_before_end e c t l s1 s2 :
  o_segs (run_prog (hand e) c) = s1 ++ Par l :: s2 -> tr e c t ->
  forall r, In r l -> Subseq [St (en r); En (en r)] t.
Proof.
  unfold tr. intros E H r Hr. rewrite E in H. apply traces_app in H.
  destruct H as (t1 & t2 & -> & _ & H). apply (traces_app [Par l] s2) in H.
  destruct H as (u1 & u2 & -> & H & _). apply subseq_app_l, subseq_app_r.
  eapply par_trace_brackets; eassumption.
Qed.
