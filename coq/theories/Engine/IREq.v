(* Engine/IREq.v — boolean equality of IR programs (to list which generated skeletons
   differ from the proved ones). *)
From Coq Require Import String List ZArith Bool.
From GV Require Import Engine.IR Engine.Hand.
Import ListNotations.

Definition base_eqb (a b : base) : bool :=
  match a, b with BSorted, BSorted | BEnts, BEnts | BLocal, BLocal => true | _, _ => false end.
Definition win_eqb (a b : win) : bool :=
  match a, b with
  | WAll, WAll | WIdx0, WIdx0 | WFrom1, WFrom1 | WButLast, WButLast | WLast, WLast
  | WFirstN, WFirstN | WDropNTakeM, WDropNTakeM => true
  | _, _ => false end.
Definition cnt_eqb (a b : cnt) : bool :=
  match a, b with CLen, CLen | CLenMinus1, CLenMinus1 | CParamN, CParamN | CParamM, CParamM => true | _, _ => false end.
Definition pol_eqb (a b : pol) : bool :=
  match a, b with Collect, Collect | ByFlag, ByFlag | StopFirst, StopFirst | ReturnAlways, ReturnAlways => true | _, _ => false end.
Definition miss_eqb (a b : miss) : bool :=
  match a, b with MSkip, MSkip | MFail, MFail | MDerefNil, MDerefNil => true | _, _ => false end.
Definition cond_eqb (a b : cond) : bool :=
  match a, b with
  | LenGe x, LenGe y | LenEq x, LenEq y | LenLe x, LenLe y => Nat.eqb x y
  | NoLayers, NoLayers => true
  | _, _ => false end.
Definition guard_eqb (a b : guard) : bool :=
  match a, b with
  | GNilBuilder, GNilBuilder | GEmptySorted, GEmptySorted | GEmptyEnts, GEmptyEnts
  | GEmptyLocal, GEmptyLocal | GNoneSelected, GNoneSelected | GNle0, GNle0 | GMle0, GMle0
  | GSumGtLen, GSumGtLen | GSumNeNames, GSumNeNames => true
  | _, _ => false end.

Fixpoint instr_eqb (a b : instr) {struct a} : bool :=
  let list_eqb := fix list_eqb (x y : list instr) {struct x} : bool :=
    match x, y with
    | [], [] => true
    | i :: x', j :: y' => instr_eqb i j && list_eqb x' y'
    | _, _ => false
    end in
  match a, b with
  | IGuard g, IGuard h => guard_eqb g h
  | IReset, IReset | ISort, ISort | IFailIfErrs, IFailIfErrs
  | IFailIfErrsUnlessB, IFailIfErrsUnlessB | IRetNil, IRetNil => true
  | ILet x, ILet y => base_eqb x y
  | ISelect x, ISelect y => miss_eqb x y
  | ISeq b1 w1 p1 t1, ISeq b2 w2 p2 t2 => base_eqb b1 b2 && win_eqb w1 w2 && pol_eqb p1 p2 && Bool.eqb t1 t2
  | IPar b1 w1 c1 t1, IPar b2 w2 c2 t2 => base_eqb b1 b2 && win_eqb w1 w2 && cnt_eqb c1 c2 && Bool.eqb t1 t2
  | ICond c1 x, ICond c2 y => cond_eqb c1 c2 && list_eqb x y
  | IIfNotStopped x, IIfNotStopped y => list_eqb x y
  | IForLayers x, IForLayers y => list_eqb x y
  | _, _ => false
  end.

Fixpoint prog_eqb (x y : list instr) : bool :=
  match x, y with
  | [], [] => true
  | i :: x', j :: y' => instr_eqb i j && prog_eqb x' y'
  | _, _ => false
  end.

Definition entry_index (e : entry) : nat :=
  match e with
  | EExecute => 0 | EExecuteWithStopTagDirect => 1 | EExecuteConcurrent => 2 | EExecuteMixModel => 3
  | EExecuteMixModelWithStopTagDirect => 4 | EExecuteSelectedRules => 5 | EExecuteSelectedRulesWithControl => 6
  | EExecuteSelectedRulesWithControlAsGivenSortedName => 7 | EExecuteSelectedRulesWithControlAndStopTag => 8
  | EExecuteSelectedRulesWithControlAndStopTagAsGivenSortedName => 9 | EExecuteSelectedRulesConcurrent => 10
  | EExecuteSelectedRulesMixModel => 11 | EExecuteInverseMixModel => 12 | EExecuteSelectedRulesInverseMixModel => 13
  | EExecuteNSortMConcurrent => 14 | EExecuteNConcurrentMSort => 15 | EExecuteNConcurrentMConcurrent => 16
  | EExecuteSelectedNSortMConcurrent => 17 | EExecuteSelectedNConcurrentMSort => 18
  | EExecuteSelectedNConcurrentMConcurrent => 19 | EExecuteDAGModel => 20
  end.
