(* Engine/Check.v — correspondence checker for the engine family (C04 C05 C11–C14, C09):
   an observation of one real call (globally sequenced start/end trace, error flag,
   result-map entries (key, value; None = nil), crash/hang flag) is compared, inside Coq, with
   (a) the specification [spec_outcome]  — codes 1..4: the property fails on this input;
   (b) the generated skeleton's semantics [run_prog (gen e)] — codes 11..14: the model
       regenerated from the source does not describe what the code did. *)
From Coq Require Import String List ZArith Bool.
From GV Require Import Engine.IR Engine.Hand Engine.Spec Engine.Trace.
Import ListNotations.

Record ecase := mkEC {
  ec_id    : nat;
  ec_entry : entry;
  ec_cfg   : cfg;
  ec_trace : list ev;
  ec_err   : bool;
  ec_entries : list (string * option Z);   (* the entries of the returned map: rule name, value (None = nil) *)
  ec_crash : bool          (* the call panicked, killed the process or did not return *)
}.

Definition set_eqb (a b : list string) : bool :=
  (forallb (fun x => existsb (String.eqb x) b) a && forallb (fun x => existsb (String.eqb x) a) b)%bool.

(* two entry lists read as finite maps: the same keys, every key bound to the same value.
   Symmetric; on the model side the keys are unique (Engine/Meaning.v, result_entries_nodup), so an
   observation that binds one key to two values, misses a key, has an extra key or binds a key to
   another value is rejected. *)
Definition entries_eqb (a b : list (string * option Z)) : bool :=
  (forallb (fun x => existsb (entry_eqb x) b) a && forallb (fun x => existsb (entry_eqb x) a) b)%bool.

Lemma oz_eqb_eq a b : oz_eqb a b = true <-> a = b.
Proof.
  destruct a as [x|], b as [y|]; cbn [oz_eqb]; try (split; congruence).
  rewrite Z.eqb_eq. split; congruence.
Qed.

Lemma entry_eqb_eq a b : entry_eqb a b = true <-> a = b.
Proof.
  destruct a as [n v], b as [n' v']. unfold entry_eqb. cbn [fst snd].
  rewrite andb_true_iff, String.eqb_eq, oz_eqb_eq. split; [intros [-> ->]; reflexivity | intros [= -> ->]; auto].
Qed.

Lemma entries_eqb_spec a b :
  entries_eqb a b = true <-> (forall n v, In (n, v) a <-> In (n, v) b).
Proof.
  unfold entries_eqb. rewrite andb_true_iff, !forallb_forall.
  assert (X : forall x l, existsb (entry_eqb x) l = true <-> In x l).
  { intros x l. rewrite existsb_exists. split.
    - intros (y & Hy & E). apply entry_eqb_eq in E. now subst.
    - intro H. exists x. split; [exact H | now apply entry_eqb_eq]. }
  split.
  - intros [H1 H2] n v. split; intro H; [apply X, H1, H | apply X, H2, H].
  - intro H. split; intros [n v] Hx; apply X, H, Hx.
Qed.

Lemma entries_eqb_sym a b : entries_eqb a b = entries_eqb b a.
Proof. unfold entries_eqb. apply andb_comm. Qed.

Definition flag (b : bool) (code : nat) : list nat := if b then [] else [code].

Definition against (o : outcome) (k : ecase) (off : nat) : list nat :=
  match o_stat o with
  | RetNil | RetErr =>
    if ec_crash k then [off + 1]
    else flag (accepts (o_segs o) (ec_trace k)) (off + 2) ++
         flag (Bool.eqb (o_err o) (ec_err k)) (off + 3) ++
         flag (match o_map o with Some m => entries_eqb m (ec_entries k) | None => false end) (off + 4)
  | _ => (* the model itself predicts a crash / hang / is not defined here *)
    if ec_crash k then [] else [off + 5]
  end.

Definition check_case (gen : entry -> list instr) (k : ecase) : list (nat * nat) :=
  map (fun c => (ec_id k, c))
      (against (spec_outcome (ec_entry k) (ec_cfg k)) k 0 ++
       against (run_prog (gen (ec_entry k)) (ec_cfg k)) k 10).

Definition mismatches (gen : entry -> list instr) (ks : list ecase) : list (nat * nat) :=
  flat_map (check_case gen) ks.

(* evidence: a case is non-trivial when at least two rules were scheduled *)
Definition nontrivial (k : ecase) : bool :=
  Nat.leb 2 (length (executed (fst (spec (ec_entry k) (ec_cfg k))))).
Definition count_nontrivial (ks : list ecase) : nat := length (filter nontrivial ks).
Definition count_par (ks : list ecase) : nat :=
  length (filter (fun k => existsb (fun g => match g with Par (_ :: _ :: _) => true | _ => false end)
                                   (fst (spec (ec_entry k) (ec_cfg k)))) ks).
