(* Engine/Check.v — correspondence checker for the engine family (C04 C05 C11–C14, C09):
   an observation of one real call (globally sequenced start/end trace, error flag,
   result-map keys, crash/hang flag) is compared, inside Coq, with
   (a) the specification [spec_outcome]  — codes 1..4: the property fails on this input;
   (b) the generated skeleton's semantics [run_prog (gen e)] — codes 11..14: the model
       regenerated from the source does not describe what the code did. *)
From Coq Require Import String List ZArith Bool.
From GV Require Import Engine.IR Engine.Hand Engine.Spec Engine.Trace.
Import ListNotations.

Record ecase := mkEC {
  ec_id    : nat;
  ec_entry : entry;
  ec_cfg   : cfg;
  ec_trace : list ev;
  ec_err   : bool;
  ec_keys  : list string;
  ec_crash : bool          (* the call panicked, killed the process or did not return *)
}.

Definition set_eqb (a b : list string) : bool :=
  (forallb (fun x => existsb (String.eqb x) b) a && forallb (fun x => existsb (String.eqb x) a) b)%bool.

Definition flag (b : bool) (code : nat) : list nat := if b then [] else [code].

Definition against (o : outcome) (k : ecase) (off : nat) : list nat :=
  match o_stat o with
  | RetNil | RetErr =>
    if ec_crash k then [off + 1]
    else flag (accepts (o_segs o) (ec_trace k)) (off + 2) ++
         flag (Bool.eqb (o_err o) (ec_err k)) (off + 3) ++
         flag (match o_map o with Some m => set_eqb m (ec_keys k) | None => false end) (off + 4)
  | _ => (* the model itself predicts a crash / hang / is not defined here *)
    if ec_crash k then [] else [off + 5]
  end.

Definition check_case (gen : entry -> list instr) (k : ecase) : list (nat * nat) :=
  map (fun c => (ec_id k, c))
      (against (spec_outcome (ec_entry k) (ec_cfg k)) k 0 ++
       against (run_prog (gen (ec_entry k)) (ec_cfg k)) k 10).

Definition mismatches (gen : entry -> list instr) (ks : list ecase) : list (nat * nat) :=
  flat_map (check_case gen) ks.

(* evidence: a case is non-trivial when at least two rules were scheduled *)
Definition nontrivial (k : ecase) : bool :=
  Nat.leb 2 (length (executed (fst (spec (ec_entry k) (ec_cfg k))))).
Definition count_nontrivial (ks : list ecase) : nat := length (filter nontrivial ks).
Definition count_par (ks : list ecase) : nat :=
  length (filter (fun k => existsb (fun g => match g with Par (_ :: _ :: _) => true | _ => false end)
                                   (fst (spec (ec_entry k) (ec_cfg k)))) ks).
