(* Engine/Hand.v — the 21 entry points of engine/gengine.go as IR programs, written by
   hand from the source and from the documented models. These are the programs the
   theorems of Engine/Sound.v are about; the translator T1 (harness/cmd/xlate)
   regenerates gen/Gen_Engine.v from the current source on every run and the per-run
   obligation is [Gen_Engine.<entry> = Hand.<entry>]. *)
From Coq Require Import String List ZArith Bool.
From GV Require Import Engine.IR.
Import ListNotations.

Definition sort_loop (b : base) (p : pol) (tag : bool) : list instr :=
  [ISeq b WAll p tag; IFailIfErrs; IRetNil].

Definition Execute : list instr :=
  [IGuard GNilBuilder; IReset; IGuard GEmptySorted] ++ sort_loop BSorted ByFlag false.
Definition ExecuteWithStopTagDirect : list instr :=
  [IGuard GNilBuilder; IReset; IGuard GEmptySorted] ++ sort_loop BSorted ByFlag true.
Definition ExecuteConcurrent : list instr :=
  [IGuard GNilBuilder; IReset; IGuard GEmptyEnts; IPar BEnts WAll CLen true; IFailIfErrs; IRetNil].
Definition ExecuteMixModel : list instr :=
  [IGuard GNilBuilder; IReset; IGuard GEmptySorted; ILet BSorted;
   ISeq BLocal WIdx0 StopFirst false;
   ICond (LenGe 2) [IPar BLocal WFrom1 CLenMinus1 true];
   IFailIfErrs; IRetNil].
Definition ExecuteMixModelWithStopTagDirect : list instr :=
  [IGuard GNilBuilder; IReset; IGuard GEmptySorted; ILet BSorted;
   ISeq BLocal WIdx0 StopFirst false;
   IIfNotStopped [ICond (LenGe 2) [IPar BLocal WFrom1 CLenMinus1 true]];
   IFailIfErrs; IRetNil].

Definition select_head (g : guard) : list instr :=
  [IGuard GNilBuilder; IReset; IGuard g; ISelect MSkip; IGuard GNoneSelected].

Definition ExecuteSelectedRules : list instr :=
  select_head GEmptyEnts ++ [ICond (LenGe 2) [ISort]] ++ sort_loop BLocal Collect false.
Definition ExecuteSelectedRulesWithControl : list instr :=
  select_head GEmptySorted ++ [ICond (LenGe 2) [ISort]] ++ sort_loop BLocal ByFlag false.
Definition ExecuteSelectedRulesWithControlAsGivenSortedName : list instr :=
  select_head GEmptySorted ++ sort_loop BLocal ByFlag false.
Definition ExecuteSelectedRulesWithControlAndStopTag : list instr :=
  select_head GEmptySorted ++ [ICond (LenGe 2) [ISort]] ++ sort_loop BLocal ByFlag true.
Definition ExecuteSelectedRulesWithControlAndStopTagAsGivenSortedName : list instr :=
  select_head GEmptySorted ++ sort_loop BLocal ByFlag true.
Definition ExecuteSelectedRulesConcurrent : list instr :=
  select_head GEmptyEnts ++
  [ICond (LenEq 1) [ISeq BLocal WIdx0 StopFirst false; IRetNil];
   IPar BLocal WAll CLen true; IFailIfErrs; IRetNil].
Definition ExecuteSelectedRulesMixModel : list instr :=
  select_head GEmptyEnts ++
  [ICond (LenEq 1) [ISeq BLocal WIdx0 StopFirst false; IRetNil];
   ISort;
   ICond (LenEq 2) [ISeq BLocal WAll StopFirst false; IRetNil];
   ISeq BLocal WIdx0 StopFirst false;
   IPar BLocal WFrom1 CLenMinus1 true; IFailIfErrs; IRetNil].

Definition inverse_tail : list instr :=
  [ICond (LenLe 2) [ISeq BLocal WAll StopFirst false; IRetNil];
   IPar BLocal WButLast CLenMinus1 true; IFailIfErrs;
   ISeq BLocal WLast StopFirst false; IRetNil].
Definition ExecuteInverseMixModel : list instr :=
  [IGuard GNilBuilder; IReset; ILet BSorted; IGuard GEmptyLocal] ++ inverse_tail.
Definition ExecuteSelectedRulesInverseMixModel : list instr :=
  [IGuard GNilBuilder; IReset; ISelect MSkip; IGuard GNoneSelected; ISort] ++ inverse_tail.

Definition nm_guards : list instr :=
  [IGuard GNilBuilder; IReset; IGuard GNle0; IGuard GMle0; IGuard GSumGtLen].
Definition nm_sel_guards : list instr :=
  [IGuard GNilBuilder; IReset; IGuard GNle0; IGuard GMle0; IGuard GSumNeNames; IGuard GSumGtLen;
   ISelect MFail; ISort].

Definition nsort_mconc (b : base) : list instr :=
  [ISeq b WFirstN ByFlag false; IPar b WDropNTakeM CParamM true; IFailIfErrs; IRetNil].
Definition nconc_msort (b : base) : list instr :=
  [IPar b WFirstN CParamN true; IFailIfErrsUnlessB; ISeq b WDropNTakeM ByFlag false; IFailIfErrs; IRetNil].
Definition nconc_mconc (b : base) : list instr :=
  [IPar b WFirstN CParamN true; IFailIfErrsUnlessB; IPar b WDropNTakeM CParamM true; IFailIfErrs; IRetNil].

Definition ExecuteNSortMConcurrent := nm_guards ++ nsort_mconc BSorted.
Definition ExecuteNConcurrentMSort := nm_guards ++ nconc_msort BSorted.
Definition ExecuteNConcurrentMConcurrent := nm_guards ++ nconc_mconc BSorted.
Definition ExecuteSelectedNSortMConcurrent := nm_sel_guards ++ nsort_mconc BLocal.
Definition ExecuteSelectedNConcurrentMSort := nm_sel_guards ++ nconc_msort BLocal.
Definition ExecuteSelectedNConcurrentMConcurrent := nm_sel_guards ++ nconc_mconc BLocal.

Definition ExecuteDAGModel : list instr :=
  [IGuard GNilBuilder; IReset; ICond NoLayers [IRetNil];
   IForLayers [ISelect MSkip; ICond (LenGe 1) [IPar BLocal WAll CLen true]; IFailIfErrs];
   IRetNil].

Inductive entry :=
| EExecute | EExecuteWithStopTagDirect | EExecuteConcurrent | EExecuteMixModel
| EExecuteMixModelWithStopTagDirect | EExecuteSelectedRules | EExecuteSelectedRulesWithControl
| EExecuteSelectedRulesWithControlAsGivenSortedName | EExecuteSelectedRulesWithControlAndStopTag
| EExecuteSelectedRulesWithControlAndStopTagAsGivenSortedName | EExecuteSelectedRulesConcurrent
| EExecuteSelectedRulesMixModel | EExecuteInverseMixModel | EExecuteSelectedRulesInverseMixModel
| EExecuteNSortMConcurrent | EExecuteNConcurrentMSort | EExecuteNConcurrentMConcurrent
| EExecuteSelectedNSortMConcurrent | EExecuteSelectedNConcurrentMSort
| EExecuteSelectedNConcurrentMConcurrent | EExecuteDAGModel.

Definition hand (e : entry) : list instr :=
  match e with
  | EExecute => Execute
  | EExecuteWithStopTagDirect => ExecuteWithStopTagDirect
  | EExecuteConcurrent => ExecuteConcurrent
  | EExecuteMixModel => ExecuteMixModel
  | EExecuteMixModelWithStopTagDirect => ExecuteMixModelWithStopTagDirect
  | EExecuteSelectedRules => ExecuteSelectedRules
  | EExecuteSelectedRulesWithControl => ExecuteSelectedRulesWithControl
  | EExecuteSelectedRulesWithControlAsGivenSortedName => ExecuteSelectedRulesWithControlAsGivenSortedName
  | EExecuteSelectedRulesWithControlAndStopTag => ExecuteSelectedRulesWithControlAndStopTag
  | EExecuteSelectedRulesWithControlAndStopTagAsGivenSortedName => ExecuteSelectedRulesWithControlAndStopTagAsGivenSortedName
  | EExecuteSelectedRulesConcurrent => ExecuteSelectedRulesConcurrent
  | EExecuteSelectedRulesMixModel => ExecuteSelectedRulesMixModel
  | EExecuteInverseMixModel => ExecuteInverseMixModel
  | EExecuteSelectedRulesInverseMixModel => ExecuteSelectedRulesInverseMixModel
  | EExecuteNSortMConcurrent => ExecuteNSortMConcurrent
  | EExecuteNConcurrentMSort => ExecuteNConcurrentMSort
  | EExecuteNConcurrentMConcurrent => ExecuteNConcurrentMConcurrent
  | EExecuteSelectedNSortMConcurrent => ExecuteSelectedNSortMConcurrent
  | EExecuteSelectedNConcurrentMSort => ExecuteSelectedNConcurrentMSort
  | EExecuteSelectedNConcurrentMConcurrent => ExecuteSelectedNConcurrentMConcurrent
  | EExecuteDAGModel => ExecuteDAGModel
  end.
