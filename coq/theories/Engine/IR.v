(* Engine/IR.v — skeleton IR of engine/gengine.go's Execute* methods and its
   executable semantics. Definitions only.

   A rule is abstracted to its schedule-independent outcome (what C01/C02/C15
   determine): does it fail, does it report the returned-flag (and with which
   value: [eval], None = nil, the value of a bare return), does it set the stop tag. One call of an entry point then deterministically yields a list
   of *segments* — [Seq l]: the rules of l run one after the other;
   [Par l]: the rules of l run on goroutines joined by a WaitGroup — plus the
   error flag and the result map. All nondeterminism (goroutine interleaving)
   lives inside [Par] segments: Engine/Trace.v gives the set of traces of a
   segment list. *)
From Coq Require Import String List ZArith Bool.
Import ListNotations.

Record erule := mkER {
  en    : string;   (* RuleName *)
  esal  : Z;        (* Salience *)
  efail : bool;     (* Execute returns err != nil *)
  eret  : bool;     (* Execute returns the returned-flag *)
  estop : bool;     (* body sets sTag.StopTag = true *)
  eval  : option Z  (* the value the rule's [return] yields; None = Go nil (a bare [return]) *)
}.

(* the result map g.returnResult: rule name -> returned value, in insertion order
   (the order is a model artefact; Go maps are unordered, keys are unique) *)
Definition rmap := list (string * option Z).

Record cfg := mkCfg {
  c_rules  : list erule;          (* rb.Kc.SortRules (and the values of RuleEntities) *)
  c_b      : bool;                (* error-policy flag: true = continue on error *)
  c_n      : Z;                   (* first N-M parameter *)
  c_m      : Z;                   (* second N-M parameter *)
  c_names  : list string;         (* selection list *)
  c_layers : list (list string);  (* DAG layers *)
  c_stop0  : bool;                (* sTag.StopTag when the call starts *)
  c_prev   : option rmap          (* result map left by the previous call on this engine; None = fresh engine (nil map) *)
}.

Inductive seg := Seq (l : list erule) | Par (l : list erule).

(* which slice an instruction reads *)
Inductive base := BSorted (* rb.Kc.SortRules, read again *) | BEnts (* rb.Kc.RuleEntities *) | BLocal (* the local slice [rules] *).
Inductive win :=
| WAll | WIdx0 | WFrom1 | WButLast | WLast
| WFirstN            (* [:n] *)
| WDropNTakeM.       (* [n:][:m] *)
Inductive cnt := CLen | CLenMinus1 | CParamN | CParamM.     (* argument of wg.Add relative to the window's base *)
Inductive pol :=
| Collect            (* append to the error list, go on *)
| ByFlag             (* b ? collect : return the error *)
| StopFirst          (* return the error of the first failing rule *)
| ReturnAlways.      (* b ? collect : return e — also when e is nil (pinned N-M code) *)
Inductive miss := MSkip (* log and go on *) | MFail (* return an error *) | MDerefNil (* formats rule.RuleName of the nil lookup result *).
Inductive cond := LenGe (k : nat) | LenEq (k : nat) | LenLe (k : nat) | NoLayers.
Inductive guard :=
| GNilBuilder | GEmptySorted | GEmptyEnts | GEmptyLocal | GNoneSelected
| GNle0 | GMle0 | GSumGtLen | GSumNeNames.
Inductive instr :=
| IGuard (g : guard)
| IReset                         (* g.returnResult = make(map[string]interface{}) *)
| ILet (b : base)                (* rules := <base> *)
| ISelect (m : miss)             (* rules = [ RuleEntities[name] | name <- names, ok ] *)
| ISort                          (* sort.SliceStable(rules, Salience > ) *)
| ISeq (b : base) (w : win) (p : pol) (stoptag : bool)
| IPar (b : base) (w : win) (c : cnt) (waited : bool)
| IFailIfErrs                    (* if len(eMsg) > 0 { return error } *)
| IFailIfErrsUnlessB             (* if !b { if len(eMsg) > 0 { return error } } *)
| IRetNil
| ICond (c : cond) (body : list instr)
| IIfNotStopped (body : list instr)
| IForLayers (body : list instr)
| IUnknown (what : string).      (* the translator could not classify a statement *)

(* final status of a call *)
Inductive status := Running | RetNil | RetErr | Crash (* panic / fatal error escaping the call *) | Stuck (* wg.Add count differs from the goroutines started: hang or negative counter *) | Unmodelled.

Record mstate := mkSt {
  st_local : list erule;
  st_names : list string;
  st_errs  : bool;                 (* len(eMsg) > 0 *)
  st_stop  : bool;                 (* sTag.StopTag *)
  st_segs  : list seg;             (* in execution order *)
  st_map   : option rmap;          (* g.returnResult; None = nil map *)
  st_stat  : status
}.

Definition set_stat (s : mstate) (x : status) : mstate :=
  mkSt (st_local s) (st_names s) (st_errs s) (st_stop s) (st_segs s) (st_map s) x.
Definition set_local (s : mstate) (l : list erule) : mstate :=
  mkSt l (st_names s) (st_errs s) (st_stop s) (st_segs s) (st_map s) (st_stat s).
Definition set_names (s : mstate) (l : list string) : mstate :=
  mkSt (st_local s) l (st_errs s) (st_stop s) (st_segs s) (st_map s) (st_stat s).

(* ---- helpers ---- *)
Fixpoint find_rule (n : string) (l : list erule) : option erule :=
  match l with
  | [] => None
  | r :: l' => if String.eqb (en r) n then Some r else find_rule n l'
  end.

Fixpoint insert_desc (r : erule) (l : list erule) : list erule :=
  match l with
  | [] => [r]
  | x :: l' => if Z.leb (esal x) (esal r) then r :: x :: l' else x :: insert_desc r l'
  end.
(* sort.SliceStable with Salience > : stable — an element inserted from the right goes in
   FRONT of the elements of equal salience that came after it *)
Definition sort_desc (l : list erule) : list erule := fold_right insert_desc [] l.

Definition zlen {A} (l : list A) : Z := Z.of_nat (length l).

Definition base_list (c : cfg) (s : mstate) (b : base) : list erule :=
  match b with BSorted | BEnts => c_rules c | BLocal => st_local s end.

(* Go slicing; None = slice bounds out of range (panic) *)
Definition window (c : cfg) (l : list erule) (w : win) : option (list erule) :=
  match w with
  | WAll => Some l
  | WIdx0 => match l with [] => None | x :: _ => Some [x] end
  | WFrom1 => match l with [] => None | _ :: t => Some t end
  | WButLast => match l with [] => None | _ => Some (removelast l) end
  | WLast => match l with [] => None | _ => Some [last l (mkER "" 0 false false false None)] end
  | WFirstN => if (Z.leb 0 (c_n c) && Z.leb (c_n c) (zlen l))%bool then Some (firstn (Z.to_nat (c_n c)) l) else None
  | WDropNTakeM =>
    if (Z.leb 0 (c_n c) && Z.leb (c_n c) (zlen l))%bool then
      let l' := skipn (Z.to_nat (c_n c)) l in
      if (Z.leb 0 (c_m c) && Z.leb (c_m c) (zlen l'))%bool then Some (firstn (Z.to_nat (c_m c)) l') else None
    else None
  end.

Definition count (c : cfg) (l : list erule) (k : cnt) : Z :=
  match k with
  | CLen => zlen l
  | CLenMinus1 => zlen l - 1
  | CParamN => c_n c
  | CParamM => c_m c
  end.

(* Go's m[n] = v on the association list: a present key keeps its position and gets the
   new value, an absent key is appended *)
Fixpoint set_entry (m : rmap) (n : string) (v : option Z) : rmap :=
  match m with
  | [] => [(n, v)]
  | (k, w) :: m' => if String.eqb k n then (k, v) :: m' else (k, w) :: set_entry m' n v
  end.

(* g.addResult(name, v) when the rule reported the returned-flag *)
Definition add_result (s : mstate) (r : erule) : mstate :=
  if eret r then
    match st_map s with
    | None => set_stat s Crash       (* assignment to entry in nil map *)
    | Some m => mkSt (st_local s) (st_names s) (st_errs s) (st_stop s) (st_segs s)
                     (Some (set_entry m (en r) (eval r))) (st_stat s)
    end
  else s.

(* the rules of a sequential loop that actually run, the status afterwards *)
Fixpoint seq_run (b : bool) (p : pol) (stoptag : bool) (l : list erule) (s : mstate)
  : list erule * mstate :=
  match l with
  | [] => ([], s)
  | r :: l' =>
    let s1 := add_result s r in
    let s1 := mkSt (st_local s1) (st_names s1) (st_errs s1) (st_stop s1 || estop r) (st_segs s1) (st_map s1) (st_stat s1) in
    match st_stat s1 with
    | Running =>
      let after_err :=
        match p with
        | Collect => if efail r then mkSt (st_local s1) (st_names s1) true (st_stop s1) (st_segs s1) (st_map s1) Running else s1
        | ByFlag => if efail r then (if b then mkSt (st_local s1) (st_names s1) true (st_stop s1) (st_segs s1) (st_map s1) Running
                                     else set_stat s1 RetErr) else s1
        | StopFirst => if efail r then set_stat s1 RetErr else s1
        | ReturnAlways => if b then (if efail r then mkSt (st_local s1) (st_names s1) true (st_stop s1) (st_segs s1) (st_map s1) Running else s1)
                          else set_stat s1 (if efail r then RetErr else RetNil)
        end in
      match st_stat after_err with
      | Running =>
        if (stoptag && st_stop after_err)%bool then ([r], after_err)        (* break *)
        else let '(ran, s2) := seq_run b p stoptag l' after_err in (r :: ran, s2)
      | _ => ([r], after_err)
      end
    | _ => ([r], s1)
    end
  end.

Definition push_seg (s : mstate) (g : seg) : mstate :=
  match g with
  | Seq [] | Par [] => s
  | _ => mkSt (st_local s) (st_names s) (st_errs s) (st_stop s) (st_segs s ++ [g]) (st_map s) (st_stat s)
  end.

(* a fan-out: every rule of the window runs; results and errors are collected
   under mutexes, so the state afterwards does not depend on the interleaving *)
Definition par_run (l : list erule) (s : mstate) : mstate :=
  let s1 := fold_left add_result l s in
  mkSt (st_local s1) (st_names s1) (st_errs s1 || existsb efail l)
       (st_stop s1 || existsb estop l) (st_segs s1) (st_map s1) (st_stat s1).

Definition eval_cond (c : cfg) (s : mstate) (k : cond) : bool :=
  match k with
  | LenGe n => Nat.leb n (length (st_local s))
  | LenEq n => Nat.eqb (length (st_local s)) n
  | LenLe n => Nat.leb (length (st_local s)) n
  | NoLayers => match c_layers c with [] => true | _ => false end
  end.

Definition eval_guard (c : cfg) (s : mstate) (g : guard) : bool :=   (* true = return an error *)
  match g with
  | GNilBuilder => false
  | GEmptySorted | GEmptyEnts => match c_rules c with [] => true | _ => false end
  | GEmptyLocal | GNoneSelected => match st_local s with [] => true | _ => false end
  | GNle0 => Z.leb (c_n c) 0
  | GMle0 => Z.leb (c_m c) 0
  | GSumGtLen => Z.ltb (zlen (c_rules c)) (c_n c + c_m c)
  | GSumNeNames => negb (Z.eqb (c_n c + c_m c) (zlen (st_names s)))
  end.

(* rules = nil; for name in names { if r, ok := E[name]; ok { append } else <miss> } *)
Fixpoint select (c : cfg) (m : miss) (names : list string) (acc : list erule) : list erule * status :=
  match names with
  | [] => (acc, Running)
  | n :: ns =>
    match find_rule n (c_rules c) with
    | Some r => select c m ns (acc ++ [r])
    | None => match m with
              | MSkip => select c m ns acc
              | MFail => (acc, RetErr)
              | MDerefNil => (acc, Crash)
              end
    end
  end.

Section Exec.
  Variable c : cfg.

  Fixpoint exec (i : instr) (s : mstate) {struct i} : mstate :=
    let exec_list := fix exec_list (l : list instr) (s : mstate) {struct l} : mstate :=
      match l with
      | [] => s
      | i :: l' => match st_stat s with Running => exec_list l' (exec i s) | _ => s end
      end in
    match i with
    | IGuard g => if eval_guard c s g then set_stat s RetErr else s
    | IReset => mkSt (st_local s) (st_names s) (st_errs s) (st_stop s) (st_segs s) (Some []) (st_stat s)
    | ILet b => set_local s (base_list c s b)
    | ISelect m => let '(l, stt) := select c m (st_names s) [] in set_stat (set_local s l) stt
    | ISort => set_local s (sort_desc (st_local s))
    | ISeq b w p tag =>
      match window c (base_list c s b) w with
      | None => set_stat s Crash
      | Some l => let '(ran, s') := seq_run (c_b c) p tag l s in
                  mkSt (st_local s') (st_names s') (st_errs s') (st_stop s') (st_segs s ++ match ran with [] => [] | _ => [Seq ran] end) (st_map s') (st_stat s')
      end
    | IPar b w k waited =>
      match window c (base_list c s b) w with
      | None => set_stat s Crash
      | Some l =>
        if negb waited then set_stat s Unmodelled
        else if negb (Z.eqb (count c (base_list c s b) k) (zlen l)) then set_stat (push_seg s (Par l)) Stuck
        else let s' := par_run l s in
             match st_stat s' with
             | Running => push_seg s' (Par l)
             | _ => push_seg s' (Par l)
             end
      end
    | IFailIfErrs => if st_errs s then set_stat s RetErr else s
    | IFailIfErrsUnlessB => if (negb (c_b c) && st_errs s)%bool then set_stat s RetErr else s
    | IRetNil => set_stat s RetNil
    | ICond k body => if eval_cond c s k then exec_list body s else s
    | IIfNotStopped body => if st_stop s then s else exec_list body s
    | IForLayers body =>
      fold_left (fun s layer => match st_stat s with
                                | Running => exec_list body (set_names s layer)
                                | _ => s end) (c_layers c) s
    | IUnknown _ => set_stat s Unmodelled
    end.

  Fixpoint exec_list (l : list instr) (s : mstate) : mstate :=
    match l with
    | [] => s
    | i :: l' => match st_stat s with Running => exec_list l' (exec i s) | _ => s end
    end.
End Exec.

Definition init_state (c : cfg) : mstate :=
  mkSt [] (c_names c) false (c_stop0 c) [] (c_prev c) Running.

Record outcome := mkOut {
  o_segs : list seg;
  o_err  : bool;                       (* the call returned a non-nil error *)
  o_stat : status;
  o_map  : option rmap                 (* the map GetRulesResultMap hands back *)
}.

Definition run_prog (p : list instr) (c : cfg) : outcome :=
  let s := exec_list c p (init_state c) in
  mkOut (st_segs s) (match st_stat s with RetErr => true | _ => false end) (st_stat s) (st_map s).
