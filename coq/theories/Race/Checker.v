(* Race/Checker.v — the lock discipline of gengine's own shared state (C19) as a decidable
   checker over the access table that the translator T2 regenerates from the source on every
   run (gen/Gen_Locks.v).  The soundness of "every access holds its guard => no data race,
   under every interleaving" is Race/HB.v; that the code follows the discipline is the
   per-run obligation [race_ok gen_accesses = true] (obligations/GenLocksOk.v). *)
From Coq Require Import String List Bool.
Import ListNotations.
Local Open Scope string_scope.

Record access := mkAcc {
  a_fn    : string;        (* function containing the access *)
  a_state : string;        (* "<file>:<state>" *)
  a_write : bool;
  a_go    : bool;          (* inside a goroutine started by that function *)
  a_held  : list string;   (* mutexes syntactically held ("R." = the method receiver) *)
  a_line  : nat
}.

Inductive guard :=
| GLock (m : string)               (* every access holds m *)
| GRW (rw m : string)              (* writes hold the write side of the RWMutex rw (and m); reads hold rw (either side) or m *)
| GLockInGoroutines (m : string).  (* accessed by the goroutines a call forks only under m; by the calling
                                      goroutine only before the fork / after the WaitGroup join (T1: waited) *)

Definition discipline (state : string) : option guard :=
  if String.eqb state "gengine_pool.go:freeGengines" then Some (GLock "R.runningLock")
  else if String.eqb state "gengine_pool.go:additionGengines" then Some (GLock "R.additionLock")
  else if String.eqb state "gengine_pool.go:ruleBuilder" then Some (GLock "R.updateLock")
  else if String.eqb state "gengine_pool.go:clear" then Some (GRW "R.stateLock" "R.updateLock")
  else if String.eqb state "gengine_pool.go:execModel" then Some (GRW "R.stateLock" "R.updateLock")
  else if String.eqb state "gengine_pool.go:rbSlice[].Kc" then Some (GRW "R.stateLock" "R.updateLock")
  else if String.eqb state "gengine.go:returnResult" then Some (GLockInGoroutines "R.lock")
  else if String.eqb state "gengine.go:eMsg" then Some (GLockInGoroutines "errLock")
  else if String.eqb state "conc_statement.go:eMsg" then Some (GLockInGoroutines "errLock")
  else if String.eqb state "data_context.go:base" then Some (GLock "R.lockBase")
  else if String.eqb state "data_context.go:Vars" then Some (GLock "R.lockVars")
  else if String.eqb state "rule_builder.go:Kc" then Some (GLock "R.buildLock")
  else None.

(* functions that run before the object is shared *)
Definition constructors : list string :=
  ["NewGenginePool"; "NewDataContext"; "NewRuleBuilder"; "NewGengine"; "NewKnowledgeContext"; "makeRuleBuilder"].

(* mutexes held by every caller of a helper (checked by T2's call-site records) *)
Definition caller_holds (fn : string) : list string :=
  if String.eqb fn "updateIncremental" then ["R.updateLock"; "R.stateLock"] else [].

Definition mem (s : string) (l : list string) : bool := existsb (String.eqb s) l.

Definition access_ok (a : access) : bool :=
  if mem (a_fn a) constructors then true
  else match discipline (a_state a) with
       | None => false
       | Some (GLock m) => mem m (a_held a ++ caller_holds (a_fn a))
       | Some (GRW rw m) =>
         let held := (a_held a ++ caller_holds (a_fn a))%list in
         if a_write a then mem rw held && mem m held
         else mem rw held || mem (rw ++ "#r") held || mem m held
       | Some (GLockInGoroutines m) =>
         if a_go a || String.eqb (a_fn a) "addResult" then mem m (a_held a) else true
       end.

Definition race_ok (l : list access) : bool := forallb access_ok l.
Definition offending (l : list access) : list access := filter (fun a => negb (access_ok a)) l.

(* call sites of helpers that rely on their caller's lock *)
Record callsite := mkCall { cs_caller : string; cs_callee : string; cs_held : list string }.
Definition callsite_ok (c : callsite) : bool :=
  forallb (fun m => mem m (cs_held c)) (caller_holds (cs_callee c)).
