(* Race/Checker.v — the lock discipline of gengine's own shared state (C19) as a decidable
   checker over the access table that the translator T2 regenerates from the source on every
   run (gen/Gen_Locks.v).  The soundness of "every access holds its guard => no data race,
   under every interleaving" is Race/HB.v; that the code follows the discipline is the
   per-run obligation [race_ok gen_accesses = true] (obligations/GenLocksOk.v). *)
From Coq Require Import String List Bool.
Import ListNotations.
Local Open Scope string_scope.

Record access := mkAcc {
  a_fn    : string;        (* function containing the access *)
  a_state : string;        (* "<file>:<state>" *)
  a_write : bool;
  a_go    : bool;          (* inside a goroutine started by that function *)
  a_held  : list string;   (* mutexes syntactically held ("R." = the method receiver) *)
  a_line  : nat
}.

Inductive guard :=
| GLock (m : string)               (* every access holds m *)
| GRW (rw m : string)              (* writes hold the write side of the RWMutex rw (and m); reads hold rw (either side) or m *)
| GLockInGoroutines (m : string).  (* accessed by the goroutines a call forks only under m; by the calling
                                      goroutine only before the fork / after the WaitGroup join (T1: waited) *)

Definition discipline (state : string) : option guard :=
  if String.eqb state "gengine_pool.go:freeGengines" then Some (GLock "R.runningLock")
  else if String.eqb state "gengine_pool.go:additionGengines" then Some (GLock "R.additionLock")
  else if String.eqb state "gengine_pool.go:ruleBuilder" then Some (GLock "R.updateLock")
  else if String.eqb state "gengine_pool.go:clear" then Some (GRW "R.stateLock" "R.updateLock")
  else if String.eqb state "gengine_pool.go:execModel" then Some (GRW "R.stateLock" "R.updateLock")
  else if String.eqb state "gengine_pool.go:rbSlice[].Kc" then Some (GRW "R.stateLock" "R.updateLock")
  else if String.eqb state "gengine.go:returnResult" then Some (GLockInGoroutines "R.lock")
  else if String.eqb state "gengine.go:eMsg" then Some (GLockInGoroutines "errLock")
  else if String.eqb state "conc_statement.go:eMsg" then Some (GLockInGoroutines "errLock")
  else if String.eqb state "data_context.go:base" then Some (GLock "R.lockBase")
  else if String.eqb state "data_context.go:Vars" then Some (GLock "R.lockVars")
  else if String.eqb state "rule_builder.go:Kc" then Some (GLock "R.buildLock")
  else None.

(* functions that run before the object is shared *)
Definition constructors : list string :=
  ["NewGenginePool"; "NewDataContext"; "NewRuleBuilder"; "NewGengine"; "NewKnowledgeContext"; "makeRuleBuilder"].

(* mutexes held by every caller of a helper (checked by T2's call-site records) *)
Definition caller_holds (fn : string) : list string :=
  if String.eqb fn "updateIncremental" then ["R.updateLock"; "R.stateLock"] else [].

Definition mem (s : string) (l : list string) : bool := existsb (String.eqb s) l.

Definition access_ok (a : access) : bool :=
  if mem (a_fn a) constructors then true
  else match discipline (a_state a) with
       | None => false
       | Some (GLock m) => mem m (a_held a ++ caller_holds (a_fn a))
       | Some (GRW rw m) =>
         let held := (a_held a ++ caller_holds (a_fn a))%list in
         if a_write a then mem rw held && mem m held
         else mem rw held || mem (rw ++ "#r") held || mem m held
       | Some (GLockInGoroutines m) =>
         if a_go a || String.eqb (a_fn a) "addResult" then mem m (a_held a) else true
       end.

Definition race_ok (l : list access) : bool := forallb access_ok l.
Definition offending (l : list access) : list access := filter (fun a => negb (access_ok a)) l.

(* call sites of helpers that rely on their caller's lock *)
Record callsite := mkCall { cs_caller : string; cs_callee : string; cs_held : list string }.
Definition callsite_ok (c : callsite) : bool :=
  forallb (fun m => mem m (cs_held c)) (caller_holds (cs_callee c)).

(* ---- the pool's waiting discipline (C17; Pool/Progress.v is proved about a system that follows it) ----
   T2 also reports every call made by a function of engine/gengine_pool.go to a method of the pool, to a
   function of that file or to the engine's Execute* ([gen_poolcalls]) and every lock acquisition in that
   file ([gen_poolacqs]), each with the mutexes held at that point.
     wait_ok  : a function that may WAIT — getGengine (for an instance), the engine's Execute* (for the
                rules, which may themselves call an update of the pool), and whatever calls one of them —
                is called with no mutex of the pool held;
     order_ok : mutexes are acquired in the order updateLock < stateLock < getEngineLock < runningLock,
                additionLock (directly or through calls), and nothing is acquired inside a read section
                of stateLock. *)
Record acq := mkAcq { q_fn : string; q_lock : string; q_held : list string }.

Definition lock_rank (l : string) : option nat :=
  if String.eqb l "R.updateLock" then Some 0
  else if String.eqb l "R.stateLock" || String.eqb l "R.stateLock#r" then Some 1
  else if String.eqb l "R.getEngineLock" then Some 2
  else if String.eqb l "R.runningLock" || String.eqb l "R.additionLock" then Some 3
  else None.

Definition below (h l : string) : bool :=
  match lock_rank h, lock_rank l with Some a, Some b => Nat.ltb a b | _, _ => false end.

Definition waits0 : list string := ["getGengine"; "engine.Execute"].

Fixpoint waiting (fuel : nat) (cs : list callsite) (w : list string) : list string :=
  match fuel with
  | 0 => w
  | S f => waiting f cs (w ++ map cs_caller (filter (fun c => mem (cs_callee c) w && negb (mem (cs_caller c) w)) cs))
  end.

Definition wait_site_ok (w : list string) (c : callsite) : bool :=
  if mem (cs_callee c) w then match (cs_held c ++ caller_holds (cs_caller c))%list with [] => true | _ => false end else true.

Definition wait_ok (cs : list callsite) : bool := forallb (wait_site_ok (waiting 6 cs waits0)) cs.
Definition bad_waits (cs : list callsite) : list callsite := filter (fun c => negb (wait_site_ok (waiting 6 cs waits0) c)) cs.

(* acquisitions made through calls: the callee's acquisitions, with the caller's mutexes added *)
Definition derived (cs : list callsite) (qs : list acq) : list acq :=
  flat_map (fun c => map (fun q => mkAcq (cs_caller c) (q_lock q) (cs_held c ++ q_held q))
                         (filter (fun q => String.eqb (q_fn q) (cs_callee c)) qs)) cs.

Fixpoint all_acqs (fuel : nat) (cs : list callsite) (qs : list acq) : list acq :=
  match fuel with 0 => qs | S f => (qs ++ derived cs (all_acqs f cs qs))%list end.

Definition acq_ok (q : acq) : bool :=
  let held := (q_held q ++ caller_holds (q_fn q))%list in
  forallb (fun h => below h (q_lock q)) held && negb (mem "R.stateLock#r" held).

Definition order_ok (cs : list callsite) (qs : list acq) : bool := forallb acq_ok (all_acqs 3 cs qs).
Definition bad_acqs (cs : list callsite) (qs : list acq) : list acq := filter (fun q => negb (acq_ok q)) (all_acqs 3 cs qs).

(* the table is about the code it is meant to be about: the waiting function exists and is called *)
Definition wait_table_nonempty (cs : list callsite) : bool := existsb (fun c => String.eqb (cs_callee c) "getGengine") cs && existsb (fun c => String.eqb (cs_callee c) "engine.Execute") cs.
