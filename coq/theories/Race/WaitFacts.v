(* Race/WaitFacts.v — what the decidable checks of the waiting discipline (Race/Checker.v wait_ok / order_ok, evaluated on the
   tables T2 regenerates at every run) MEAN: a table that passes [order_ok] contains no acquisition of a mutex that is already
   held, no two mutexes acquired in both orders (directly or through calls, to the depth the table unfolds), no acquisition
   inside a read section of stateLock; a table that passes [wait_ok] contains no call of a function that may wait made with a
   mutex held.  These are the hypotheses under which Pool/Progress.v's transition system is the code's. *)
From Coq Require Import String List Bool Arith Lia.
From GV Require Import Race.Checker.
Import ListNotations.

Lemma below_lt h l : below h l = true -> exists a b, lock_rank h = Some a /\ lock_rank l = Some b /\ a < b.
Proof.
  unfold below. destruct (lock_rank h) as [a|]; [|discriminate]. destruct (lock_rank l) as [b|]; [|discriminate].
  intros H. apply Nat.ltb_lt in H. exists a, b. auto.
Qed.

Definition held_of (q : acq) : list string := (q_held q ++ caller_holds (q_fn q))%list.

Lemma acq_ok_spec q : acq_ok q = true ->
  (forall h, In h (held_of q) -> below h (q_lock q) = true) /\ ~ In "R.stateLock#r"%string (held_of q).
Proof.
  unfold acq_ok, held_of. intros H. apply andb_true_iff in H. destruct H as [H1 H2]. split.
  - intros h Hh. rewrite forallb_forall in H1. exact (H1 h Hh).
  - intro Hin. apply negb_true_iff in H2. unfold mem in H2.
    assert (existsb (String.eqb "R.stateLock#r") (q_held q ++ caller_holds (q_fn q)) = true).
    { apply existsb_exists. exists "R.stateLock#r"%string. split; [exact Hin|apply String.eqb_refl]. }
    congruence.
Qed.

Section Ordered.
  Variables (cs : list callsite) (qs : list acq).
  Hypothesis Hok : order_ok cs qs = true.

  Lemma every_acquisition_ok q : In q (all_acqs 3 cs qs) -> acq_ok q = true.
  Proof. unfold order_ok in Hok. rewrite forallb_forall in Hok. exact (Hok q). Qed.

  (* no mutex is acquired while it is held: no thread waits for itself *)
  Theorem no_self_acquisition q : In q (all_acqs 3 cs qs) -> ~ In (q_lock q) (held_of q).
  Proof.
    intros Hq Hin. destruct (acq_ok_spec q (every_acquisition_ok q Hq)) as [Hb _].
    destruct (below_lt _ _ (Hb _ Hin)) as [a [b [Ha [Hb' Hlt]]]]. rewrite Ha in Hb'. injection Hb' as E. lia.
  Qed.

  (* no two mutexes are acquired in both orders: the acquisition order has no cycle of length two ... *)
  Theorem no_opposite_orders q1 q2 :
    In q1 (all_acqs 3 cs qs) -> In q2 (all_acqs 3 cs qs) ->
    In (q_lock q2) (held_of q1) -> In (q_lock q1) (held_of q2) -> False.
  Proof.
    intros H1 H2 Ha Hb.
    destruct (acq_ok_spec q1 (every_acquisition_ok q1 H1)) as [B1 _].
    destruct (acq_ok_spec q2 (every_acquisition_ok q2 H2)) as [B2 _].
    destruct (below_lt _ _ (B1 _ Ha)) as [a [b [E1 [E2 L1]]]].
    destruct (below_lt _ _ (B2 _ Hb)) as [c [d [E3 [E4 L2]]]].
    rewrite E2 in E3. injection E3 as E3. rewrite E1 in E4. injection E4 as E4. lia.
  Qed.

  (* ... nor of any length: along a chain "held while acquiring" the rank strictly increases, so a chain cannot close *)
  Inductive chain : string -> string -> Prop :=
  | chain_one : forall q h, In q (all_acqs 3 cs qs) -> In h (held_of q) -> chain h (q_lock q)
  | chain_cons : forall a b c, chain a b -> chain b c -> chain a c.

  Lemma chain_rank a b : chain a b -> exists x y, lock_rank a = Some x /\ lock_rank b = Some y /\ x < y.
  Proof.
    induction 1 as [q h Hq Hh|a b c _ [x [y [Ex [Ey L1]]]] _ [y' [z [Ey' [Ez L2]]]]].
    - destruct (acq_ok_spec q (every_acquisition_ok q Hq)) as [B _]. exact (below_lt _ _ (B _ Hh)).
    - rewrite Ey in Ey'. injection Ey' as E. subst y'. exists x, z. repeat split; auto. lia.
  Qed.

  Theorem acquisition_order_is_acyclic a : ~ chain a a.
  Proof. intros H. destruct (chain_rank _ _ H) as [x [y [Ex [Ey L]]]]. rewrite Ex in Ey. injection Ey as E. lia. Qed.

  (* nothing is acquired inside a read section of stateLock *)
  Theorem read_sections_acquire_nothing q : In q (all_acqs 3 cs qs) -> ~ In "R.stateLock#r"%string (held_of q).
  Proof. intros Hq. exact (proj2 (acq_ok_spec q (every_acquisition_ok q Hq))). Qed.
End Ordered.

(* whoever may wait holds nothing *)
Theorem waiters_hold_nothing cs c :
  wait_ok cs = true -> In c cs -> mem (cs_callee c) (waiting 6 cs waits0) = true ->
  cs_held c = [] /\ caller_holds (cs_caller c) = [].
Proof.
  unfold wait_ok. intros H Hin Hw. rewrite forallb_forall in H. specialize (H c Hin). unfold wait_site_ok in H.
  rewrite Hw in H. destruct (cs_held c ++ caller_holds (cs_caller c))%list eqn:E; [|discriminate].
  apply app_eq_nil in E. exact E.
Qed.

Lemma waiting_grows fuel cs : forall w x, In x w -> In x (waiting fuel cs w).
Proof. induction fuel as [|f IH]; cbn; intros w x H; [exact H|]. apply IH. apply in_or_app. left. exact H. Qed.

Lemma waiting_S fuel cs w :
  waiting (S fuel) cs w = waiting fuel cs (w ++ map cs_caller (filter (fun c => mem (cs_callee c) w && negb (mem (cs_caller c) w)) cs)).
Proof. reflexivity. Qed.

(* getGengine and the engine's Execute* are among them, and so is every function that calls one of them directly *)
Theorem direct_callers_wait cs c :
  In c cs -> In (cs_callee c) waits0 -> mem (cs_caller c) (waiting 6 cs waits0) = true.
Proof.
  intros Hin Hc. unfold mem. apply existsb_exists. exists (cs_caller c). split; [|apply String.eqb_refl].
  rewrite (waiting_S 5). destruct (mem (cs_caller c) waits0) eqn:Em.
  - apply waiting_grows. apply in_or_app. left. unfold mem in Em. apply existsb_exists in Em. destruct Em as [y [Hy Ey]].
    apply String.eqb_eq in Ey. subst y. exact Hy.
  - apply waiting_grows. apply in_or_app. right. apply in_map. apply filter_In. split; [exact Hin|].
    apply andb_true_iff. split.
    + unfold mem. apply existsb_exists. exists (cs_callee c). split; [exact Hc|apply String.eqb_refl].
    + rewrite Em. reflexivity.
Qed.
