(* Race/HB.v — soundness of the lock discipline (C19): if every access to a piece of shared
   state follows the discipline of its guard, then no two conflicting accesses are unordered by
   happens-before, in EVERY well-formed sequentially consistent interleaving.

   The three discipline predicates mirror the guard kinds of Race/Checker.v:
     GLock m               ~ [guarded_by_mutex tr x m]
     GRW rw m              ~ [guarded_by_rw2 tr x rw m]   ([guarded_by_rw tr x m] is the case rw = m)
     GLockInGoroutines m   ~ [confined_or_locked tr x m owner]
   That the code follows the discipline is Checker.race_ok on the regenerated table; this file
   is the trace-level half: discipline => race freedom.  Stdlib only, no axioms. *)
From Coq Require Import List Arith Lia Bool Relations PeanoNat.
Import ListNotations.

(* ------------------------------------------------------------------------------------------ *)
(** * Events and traces *)

Definition tid := nat.
Definition lockid := nat.
Definition var := nat.

Inductive op :=
| Acq (m : lockid) | Rel (m : lockid)        (* sync.Mutex Lock/Unlock, or the write side of a sync.RWMutex *)
| RAcq (m : lockid) | RRel (m : lockid)      (* RWMutex RLock/RUnlock *)
| Rd (x : var) | Wr (x : var)
| Fork (c : tid) | Join (c : tid).           (* go statement; WaitGroup.Wait after the child's Done *)

Definition event := (tid * op)%type.
Definition trace := list event.              (* one global, sequentially consistent interleaving *)

(* ------------------------------------------------------------------------------------------ *)
(** * Lock state, replayed along the trace *)

Record lstate := mkLS {
  writer  : lockid -> option tid;   (* who holds the exclusive side *)
  readers : lockid -> list tid      (* who holds the shared side (a multiset: RLock may nest) *)
}.

Definition init : lstate := mkLS (fun _ => None) (fun _ => []).

Definition upd {A} (f : nat -> A) (k : nat) (v : A) : nat -> A :=
  fun k' => if k' =? k then v else f k'.

Fixpoint remove1 (t : tid) (l : list tid) : list tid :=
  match l with
  | [] => []
  | u :: l' => if u =? t then l' else u :: remove1 t l'
  end.

Definition step (s : lstate) (e : event) : lstate :=
  match e with
  | (t, Acq m)  => mkLS (upd (writer s) m (Some t)) (readers s)
  | (t, Rel m)  => mkLS (upd (writer s) m None) (readers s)
  | (t, RAcq m) => mkLS (writer s) (upd (readers s) m (t :: readers s m))
  | (t, RRel m) => mkLS (writer s) (upd (readers s) m (remove1 t (readers s m)))
  | _ => s
  end.

(* the lock state just before position i (after the first i events) *)
Definition state_at (tr : trace) (i : nat) : lstate := fold_left step (firstn i tr) init.

Definition holds_w (tr : trace) (i : nat) (t : tid) (m : lockid) : Prop :=
  writer (state_at tr i) m = Some t.
Definition holds_r (tr : trace) (i : nat) (t : tid) (m : lockid) : Prop :=
  In t (readers (state_at tr i) m).

(* ------------------------------------------------------------------------------------------ *)
(** * Well-formed traces *)

Definition op_ok (tr : trace) (i : nat) (t : tid) (o : op) : Prop :=
  let s := state_at tr i in
  match o with
  | Acq m  => writer s m = None /\ readers s m = []
  | RAcq m => writer s m = None
  | Rel m  => writer s m = Some t
  | RRel m => In t (readers s m)
  | Rd _ | Wr _ => True
  | Fork c => c <> t /\ (forall j o', j < i -> nth_error tr j <> Some (c, o'))
  | Join c => (forall j o', i < j -> nth_error tr j <> Some (c, o')) /\
              (exists k t', k < i /\ nth_error tr k = Some (t', Fork c))
  end.

Definition wf_trace (tr : trace) : Prop :=
  forall i t o, nth_error tr i = Some (t, o) -> op_ok tr i t o.

(* ------------------------------------------------------------------------------------------ *)
(** * Happens-before *)

Inductive hb1 (tr : trace) (i j : nat) : Prop :=
| hb_po : forall t a b, i < j ->
    nth_error tr i = Some (t, a) -> nth_error tr j = Some (t, b) -> hb1 tr i j
| hb_rel_acq : forall t t' m, i < j ->
    nth_error tr i = Some (t, Rel m) -> nth_error tr j = Some (t', Acq m) -> hb1 tr i j
| hb_rel_racq : forall t t' m, i < j ->
    nth_error tr i = Some (t, Rel m) -> nth_error tr j = Some (t', RAcq m) -> hb1 tr i j
| hb_rrel_acq : forall t t' m, i < j ->
    nth_error tr i = Some (t, RRel m) -> nth_error tr j = Some (t', Acq m) -> hb1 tr i j
| hb_fork : forall t c b, i < j ->
    nth_error tr i = Some (t, Fork c) -> nth_error tr j = Some (c, b) -> hb1 tr i j
| hb_join : forall c a t, i < j ->
    nth_error tr i = Some (c, a) -> nth_error tr j = Some (t, Join c) -> hb1 tr i j.

Definition hb (tr : trace) : nat -> nat -> Prop := clos_trans nat (hb1 tr).

(* ------------------------------------------------------------------------------------------ *)
(** * Conflicts and disciplines *)

Definition is_acc (o : op) (x : var) : Prop := o = Rd x \/ o = Wr x.

Definition conflicting_on (tr : trace) (x : var) (i j : nat) : Prop :=
  i < j /\ exists t t' a b,
    nth_error tr i = Some (t, a) /\ nth_error tr j = Some (t', b) /\ t <> t' /\
    is_acc a x /\ is_acc b x /\ (a = Wr x \/ b = Wr x).

Definition conflicting (tr : trace) (i j : nat) : Prop := exists x, conflicting_on tr x i j.

Definition accesses (tr : trace) (i : nat) (t : tid) (x : var) : Prop :=
  nth_error tr i = Some (t, Rd x) \/ nth_error tr i = Some (t, Wr x).

(* kind GLock *)
Definition guarded_by_mutex (tr : trace) (x : var) (m : lockid) : Prop :=
  forall i t, nth_error tr i = Some (t, Rd x) \/ nth_error tr i = Some (t, Wr x) -> holds_w tr i t m.

(* kind GRW, one lock *)
Definition guarded_by_rw (tr : trace) (x : var) (m : lockid) : Prop :=
  (forall i t, nth_error tr i = Some (t, Wr x) -> holds_w tr i t m) /\
  (forall i t, nth_error tr i = Some (t, Rd x) -> holds_w tr i t m \/ holds_r tr i t m).

(* kind GRW exactly as in Checker.v: writes hold the write side of rw AND the mutex m; reads hold
   rw (either side) OR m *)
Definition guarded_by_rw2 (tr : trace) (x : var) (rw m : lockid) : Prop :=
  (forall i t, nth_error tr i = Some (t, Wr x) -> holds_w tr i t rw /\ holds_w tr i t m) /\
  (forall i t, nth_error tr i = Some (t, Rd x) ->
     holds_w tr i t rw \/ holds_r tr i t rw \/ holds_w tr i t m).

(* kind GLockInGoroutines: every access to x holds m, except that [owner] may touch x without the
   lock at positions that lie before its Fork of every other thread that accesses x, or after its
   Join of every such thread *)
Definition before_fork (tr : trace) (i : nat) (owner c : tid) : Prop :=
  exists f, i < f /\ nth_error tr f = Some (owner, Fork c).
Definition after_join (tr : trace) (i : nat) (owner c : tid) : Prop :=
  exists f, f < i /\ nth_error tr f = Some (owner, Join c).

Definition confined_or_locked (tr : trace) (x : var) (m : lockid) (owner : tid) : Prop :=
  forall i t, accesses tr i t x ->
    holds_w tr i t m \/
    (t = owner /\
     ((forall j c, c <> owner -> accesses tr j c x -> before_fork tr i owner c) \/
      (forall j c, c <> owner -> accesses tr j c x -> after_join tr i owner c))).

(* ------------------------------------------------------------------------------------------ *)
(** * Replay facts *)

Lemma firstn_snoc : forall (tr : trace) j e,
  nth_error tr j = Some e -> firstn (S j) tr = firstn j tr ++ [e].
Proof.
  induction tr as [|a tr IH]; intros [|j] e H; simpl in *; try discriminate.
  - inversion H; reflexivity.
  - f_equal. apply IH; assumption.
Qed.

Lemma state_at_S : forall tr j,
  state_at tr (S j) = match nth_error tr j with
                      | Some e => step (state_at tr j) e
                      | None => state_at tr j
                      end.
Proof.
  intros tr j. unfold state_at. destruct (nth_error tr j) eqn:E.
  - rewrite (firstn_snoc _ _ _ E), fold_left_app. reflexivity.
  - apply nth_error_None in E. rewrite !firstn_all2 by lia. reflexivity.
Qed.

Lemma in_remove1 : forall t a l, In a (remove1 t l) -> In a l.
Proof.
  induction l as [|u l IH]; simpl; auto.
  destruct (u =? t); simpl; intuition.
Qed.

Lemma in_remove1_other : forall t a l, In a l -> a <> t -> In a (remove1 t l).
Proof.
  induction l as [|u l IH]; simpl; auto.
  intros [->|H] Hne.
  - destruct (a =? t) eqn:E; [apply Nat.eqb_eq in E; contradiction | left; reflexivity].
  - destruct (u =? t); [assumption | right; auto].
Qed.

Lemma writer_step : forall s t o m t',
  writer (step s (t, o)) m = Some t' -> writer s m = Some t' \/ (o = Acq m /\ t = t').
Proof.
  intros s t o m t' H. destruct o; simpl in H; auto; unfold upd in H;
    destruct (m =? m0) eqn:E; auto; apply Nat.eqb_eq in E; subst.
  - inversion H; auto.
  - discriminate.
Qed.

Lemma readers_step : forall s t o m t',
  In t' (readers (step s (t, o)) m) -> In t' (readers s m) \/ (o = RAcq m /\ t = t').
Proof.
  intros s t o m t' H. destruct o; simpl in H; auto; unfold upd in H;
    destruct (m =? m0) eqn:E; auto; apply Nat.eqb_eq in E; subst.
  - destruct H as [->|H]; auto.
  - left. eapply in_remove1; eassumption.
Qed.

Lemma writer_keep : forall s t o m t',
  writer s m = Some t' -> o <> Rel m -> o <> Acq m -> writer (step s (t, o)) m = Some t'.
Proof.
  intros s t o m t' H H1 H2. destruct o; simpl; auto; unfold upd;
    destruct (m =? m0) eqn:E; auto; apply Nat.eqb_eq in E; subst; congruence.
Qed.

Lemma readers_keep : forall s t o m t',
  In t' (readers s m) -> (t, o) <> (t', RRel m) -> In t' (readers (step s (t, o)) m).
Proof.
  intros s t o m t' H H1. destruct o; simpl; auto; unfold upd;
    destruct (m =? m0) eqn:E; auto; apply Nat.eqb_eq in E; subst.
  - right; assumption.
  - apply in_remove1_other; [assumption | congruence].
Qed.

(* mutual exclusion: an exclusively held lock has no readers *)
Definition excl_inv (s : lstate) : Prop := forall m, writer s m <> None -> readers s m = [].

Lemma excl_inv_at : forall tr, wf_trace tr -> forall i, excl_inv (state_at tr i).
Proof.
  intros tr WF. induction i as [|i IH].
  - intros m H. reflexivity.
  - rewrite state_at_S. destruct (nth_error tr i) as [[t o]|] eqn:E; [|exact IH].
    specialize (WF _ _ _ E). unfold op_ok in WF. simpl in WF.
    intros m H. destruct o; simpl in *; try (apply IH; exact H); unfold upd in *.
    + destruct (m =? m0) eqn:Em; [apply Nat.eqb_eq in Em; subst; tauto | apply IH; exact H].
    + destruct (m =? m0) eqn:Em; [congruence | apply IH; exact H].
    + destruct (m =? m0) eqn:Em; [apply Nat.eqb_eq in Em; subst; congruence | apply IH; exact H].
    + destruct (m =? m0) eqn:Em; [|apply IH; exact H].
      apply Nat.eqb_eq in Em; subst. rewrite (IH _ H) in WF. destruct WF.
Qed.

(* ------------------------------------------------------------------------------------------ *)
(** * The hand-over lemmas *)

Definition holds (s : lstate) (t : tid) (m : lockid) : Prop :=
  writer s m = Some t \/ In t (readers s m).

Definition acquires (tr : trace) (l : nat) (t : tid) (m : lockid) : Prop :=
  nth_error tr l = Some (t, Acq m) \/ nth_error tr l = Some (t, RAcq m).

(* t holds m exclusively just before i: at any later point either it still does, or it has
   released m at some k >= i and every current holder acquired m after k *)
Lemma writer_handover : forall tr i t m,
  wf_trace tr -> writer (state_at tr i) m = Some t ->
  forall j, i <= j ->
    writer (state_at tr j) m = Some t \/
    exists k, i <= k < j /\ nth_error tr k = Some (t, Rel m) /\
      forall t', holds (state_at tr j) t' m -> exists l, k < l < j /\ acquires tr l t' m.
Proof.
  intros tr i t m WF Hi j Hle. induction Hle as [|j Hle IH]; [left; exact Hi|].
  rewrite state_at_S. destruct (nth_error tr j) as [[u o]|] eqn:E.
  2:{ destruct IH as [IH|(k & Hk & Hrel & Hacq)]; [left; exact IH|].
      right. exists k. split; [lia|]. split; [exact Hrel|].
      intros t' H. destruct (Hacq _ H) as (l & Hl & Hl'). exists l. split; [lia | exact Hl']. }
  destruct IH as [IH|(k & Hk & Hrel & Hacq)].
  - (* still held by t just before j *)
    assert (Dec : o = Rel m \/ o <> Rel m).
    { destruct o; try (right; discriminate). destruct (Nat.eq_dec m0 m); [left | right]; congruence. }
    destruct Dec as [->|Hne].
    + (* the release: nobody holds m afterwards *)
      pose proof (WF _ _ _ E) as Hok. unfold op_ok in Hok. simpl in Hok.
      assert (u = t) by congruence. subst u.
      right. exists j. split; [lia|]. split; [exact E|].
      intros t' [H|H]; simpl in H.
      * unfold upd in H. rewrite Nat.eqb_refl in H. discriminate.
      * rewrite (excl_inv_at tr WF j m) in H by congruence. destruct H.
    + left. apply writer_keep; [exact IH | exact Hne |].
      intros ->. pose proof (WF _ _ _ E) as Hok. unfold op_ok in Hok. simpl in Hok.
      destruct Hok as [Hok _]. congruence.
  - right. exists k. split; [lia|]. split; [exact Hrel|].
    intros t' [H|H].
    + apply writer_step in H. destruct H as [H|[-> ->]].
      * destruct (Hacq t' (or_introl H)) as (l & Hl & Hl'). exists l. split; [lia | exact Hl'].
      * exists j. split; [lia | left; exact E].
    + apply readers_step in H. destruct H as [H|[-> ->]].
      * destruct (Hacq t' (or_intror H)) as (l & Hl & Hl'). exists l. split; [lia | exact Hl'].
      * exists j. split; [lia | right; exact E].
Qed.

(* t holds m as a reader just before i: at any later point either it still does, or it has
   read-released m at some k >= i and the current exclusive holder acquired m after k *)
Lemma reader_handover : forall tr i t m,
  wf_trace tr -> In t (readers (state_at tr i) m) ->
  forall j, i <= j ->
    In t (readers (state_at tr j) m) \/
    exists k, i <= k < j /\ nth_error tr k = Some (t, RRel m) /\
      forall t', writer (state_at tr j) m = Some t' ->
        exists l, k < l < j /\ nth_error tr l = Some (t', Acq m).
Proof.
  intros tr i t m WF Hi j Hle. induction Hle as [|j Hle IH]; [left; exact Hi|].
  rewrite state_at_S. destruct (nth_error tr j) as [[u o]|] eqn:E.
  2:{ destruct IH as [IH|(k & Hk & Hrel & Hacq)]; [left; exact IH|].
      right. exists k. split; [lia|]. split; [exact Hrel|].
      intros t' H. destruct (Hacq _ H) as (l & Hl & Hl'). exists l. split; [lia | exact Hl']. }
  destruct IH as [IH|(k & Hk & Hrel & Hacq)].
  - assert (Dec : (u, o) = (t, RRel m) \/ (u, o) <> (t, RRel m)).
    { destruct o; try (right; congruence).
      destruct (Nat.eq_dec m0 m); [|right; congruence].
      destruct (Nat.eq_dec u t); [left | right]; congruence. }
    destruct Dec as [Heq|Hne].
    + inversion Heq; subst u o.
      right. exists j. split; [lia|]. split; [exact E|].
      intros t' H. simpl in H.
      pose proof (excl_inv_at tr WF j m) as Hinv. rewrite Hinv in IH by congruence. destruct IH.
    + left. apply readers_keep; assumption.
  - right. exists k. split; [lia|]. split; [exact Hrel|].
    intros t' H. apply writer_step in H. destruct H as [H|[-> ->]].
    + destruct (Hacq t' H) as (l & Hl & Hl'). exists l. split; [lia | exact Hl'].
    + exists j. split; [lia | exact E].
Qed.

(* ------------------------------------------------------------------------------------------ *)
(** * Happens-before facts *)

Lemma hb1_lt : forall tr i j, hb1 tr i j -> i < j.
Proof. intros tr i j H; destruct H; assumption. Qed.

Lemma hb_lt : forall tr i j, hb tr i j -> i < j.
Proof.
  intros tr i j H. induction H as [i j H|i k j _ IH1 _ IH2]; [eapply hb1_lt; eassumption | lia].
Qed.

Lemma hb_irrefl : forall tr i, ~ hb tr i i.
Proof. intros tr i H. apply hb_lt in H. lia. Qed.

Lemma hb_trans : forall tr i j k, hb tr i j -> hb tr j k -> hb tr i k.
Proof. intros tr i j k H1 H2. eapply t_trans; eassumption. Qed.

(* i --po--> k --sync--> l --po--> j *)
Lemma hb_chain : forall tr i k l j t t' a b r q,
  nth_error tr i = Some (t, a) -> nth_error tr k = Some (t, r) ->
  nth_error tr l = Some (t', q) -> nth_error tr j = Some (t', b) ->
  i < k -> l < j -> hb1 tr k l -> hb tr i j.
Proof.
  intros tr i k l j t t' a b r q Hi Hk Hl Hj Hik Hlj Hkl.
  eapply t_trans; [apply t_step; eapply hb_po; [exact Hik | exact Hi | exact Hk]|].
  eapply t_trans; [apply t_step; exact Hkl|].
  apply t_step; eapply hb_po; [exact Hlj | exact Hl | exact Hj].
Qed.

(* two accesses by different threads under the same lock, at least one side exclusive, are ordered *)
Lemma ordered_by_lock : forall tr m i j t t' a b x y,
  wf_trace tr -> i < j ->
  nth_error tr i = Some (t, a) -> nth_error tr j = Some (t', b) -> t <> t' ->
  is_acc a x -> is_acc b y ->
  (holds_w tr i t m /\ (holds_w tr j t' m \/ holds_r tr j t' m)) \/
  (holds_r tr i t m /\ holds_w tr j t' m) ->
  hb tr i j.
Proof.
  intros tr m i j t t' a b x y WF Hij Hi Hj Hne Ha Hb H.
  unfold holds_w, holds_r in H. destruct H as [[Hw Hh]|[Hr Hw]].
  - destruct (writer_handover tr i t m WF Hw j (Nat.lt_le_incl _ _ Hij)) as [Hs|(k & Hk & Hrel & Hacq)].
    + exfalso. destruct Hh as [Hh|Hh]; [congruence|].
      rewrite (excl_inv_at tr WF j m) in Hh by congruence. destruct Hh.
    + destruct (Hacq t' Hh) as (l & Hl & Hl').
      assert (i <> k) by (intros ->; destruct Ha; congruence).
      destruct Hl' as [Hl'|Hl'].
      * eapply hb_chain with (k := k) (l := l); try eassumption; try lia.
        eapply hb_rel_acq; [|eassumption|eassumption]; lia.
      * eapply hb_chain with (k := k) (l := l); try eassumption; try lia.
        eapply hb_rel_racq; [|eassumption|eassumption]; lia.
  - destruct (reader_handover tr i t m WF Hr j (Nat.lt_le_incl _ _ Hij)) as [Hs|(k & Hk & Hrel & Hacq)].
    + exfalso. rewrite (excl_inv_at tr WF j m) in Hs by congruence. destruct Hs.
    + destruct (Hacq t' Hw) as (l & Hl & Hl').
      assert (i <> k) by (intros ->; destruct Ha; congruence).
      eapply hb_chain with (k := k) (l := l); try eassumption; try lia.
      eapply hb_rrel_acq; [|eassumption|eassumption]; lia.
Qed.

(* ------------------------------------------------------------------------------------------ *)
(** * Soundness of the three disciplines *)

Theorem mutex_discipline_sound : forall tr x m,
  wf_trace tr -> guarded_by_mutex tr x m ->
  forall i j, conflicting_on tr x i j -> hb tr i j.
Proof.
  intros tr x m WF G i j (Hij & t & t' & a & b & Hi & Hj & Hne & Ha & Hb & _).
  eapply ordered_by_lock with (m := m); try eassumption.
  left. split.
  - apply G. destruct Ha; subst; auto.
  - left. apply G. destruct Hb; subst; auto.
Qed.

Theorem rw2_discipline_sound : forall tr x rw m,
  wf_trace tr -> guarded_by_rw2 tr x rw m ->
  forall i j, conflicting_on tr x i j -> hb tr i j.
Proof.
  intros tr x rw m WF [GW GR] i j (Hij & t & t' & a & b & Hi & Hj & Hne & Ha & Hb & Hw).
  destruct Hw as [->| ->].
  - (* the earlier access is the write *)
    destruct (GW _ _ Hi) as [Wrw Wm]. destruct Hb as [->| ->].
    + destruct (GR _ _ Hj) as [H|[H|H]].
      * eapply ordered_by_lock with (m := rw); try eassumption; try solve [left; reflexivity | right; reflexivity]. left; auto.
      * eapply ordered_by_lock with (m := rw); try eassumption; try solve [left; reflexivity | right; reflexivity]. left; auto.
      * eapply ordered_by_lock with (m := m); try eassumption; try solve [left; reflexivity | right; reflexivity]. left; auto.
    + destruct (GW _ _ Hj) as [H _].
      eapply ordered_by_lock with (m := rw); try eassumption; try solve [left; reflexivity | right; reflexivity]. left; auto.
  - (* the later access is the write *)
    destruct (GW _ _ Hj) as [Wrw Wm]. destruct Ha as [->| ->].
    + destruct (GR _ _ Hi) as [H|[H|H]].
      * eapply ordered_by_lock with (m := rw); try eassumption; try solve [left; reflexivity | right; reflexivity]. left; auto.
      * eapply ordered_by_lock with (m := rw); try eassumption; try solve [left; reflexivity | right; reflexivity]. right; auto.
      * eapply ordered_by_lock with (m := m); try eassumption; try solve [left; reflexivity | right; reflexivity]. left; auto.
    + destruct (GW _ _ Hi) as [H _].
      eapply ordered_by_lock with (m := rw); try eassumption; try solve [left; reflexivity | right; reflexivity]. left; auto.
Qed.

Lemma rw_is_rw2 : forall tr x m, guarded_by_rw tr x m -> guarded_by_rw2 tr x m m.
Proof.
  intros tr x m [GW GR]. split.
  - intros i t H. split; apply GW; exact H.
  - intros i t H. destruct (GR _ _ H); auto.
Qed.

Theorem rwmutex_discipline_sound : forall tr x m,
  wf_trace tr -> guarded_by_rw tr x m ->
  forall i j, conflicting_on tr x i j -> hb tr i j.
Proof.
  intros tr x m WF G. eapply rw2_discipline_sound; [exact WF | apply rw_is_rw2; exact G].
Qed.

Theorem fork_join_confinement_sound : forall tr x m owner,
  wf_trace tr -> confined_or_locked tr x m owner ->
  forall i j, conflicting_on tr x i j -> hb tr i j.
Proof.
  intros tr x m owner WF G i j (Hij & t & t' & a & b & Hi & Hj & Hne & Ha & Hb & _).
  assert (Ai : accesses tr i t x) by (unfold accesses; destruct Ha; subst; auto).
  assert (Aj : accesses tr j t' x) by (unfold accesses; destruct Hb; subst; auto).
  destruct (G _ _ Aj) as [Lj|[-> Cj]].
  - destruct (G _ _ Ai) as [Li|[-> Ci]].
    + eapply ordered_by_lock with (m := m); try eassumption. left; auto.
    + (* owner's unlocked access first, the child's access later *)
      assert (Hc : t' <> owner) by congruence.
      destruct Ci as [Ci|Ci].
      * destruct (Ci _ _ Hc Aj) as (f & Hf & Hfork).
        pose proof (WF _ _ _ Hfork) as Hok. unfold op_ok in Hok. simpl in Hok.
        destruct Hok as [_ Hno].
        assert (f < j).
        { destruct (Nat.lt_trichotomy j f) as [L|[L|L]]; [|subst; congruence|exact L].
          exfalso. exact (Hno _ _ L Hj). }
        eapply t_trans; [apply t_step; eapply hb_po; [exact Hf | exact Hi | exact Hfork]|].
        apply t_step. eapply hb_fork; [|exact Hfork | exact Hj]. assumption.
      * destruct (Ci _ _ Hc Aj) as (f & Hf & Hjoin).
        pose proof (WF _ _ _ Hjoin) as Hok. unfold op_ok in Hok. simpl in Hok.
        destruct Hok as [Hno _]. exfalso. apply (Hno j b); [lia | exact Hj].
  - (* owner's unlocked access is the later one *)
    assert (Hc : t <> owner) by congruence.
    destruct Cj as [Cj|Cj].
    + destruct (Cj _ _ Hc Ai) as (f & Hf & Hfork).
      pose proof (WF _ _ _ Hfork) as Hok. unfold op_ok in Hok. simpl in Hok.
      destruct Hok as [_ Hno]. exfalso. apply (Hno i a); [lia | exact Hi].
    + destruct (Cj _ _ Hc Ai) as (f & Hf & Hjoin).
      pose proof (WF _ _ _ Hjoin) as Hok. unfold op_ok in Hok. simpl in Hok.
      destruct Hok as [Hno _].
      assert (i < f).
      { destruct (Nat.lt_trichotomy i f) as [L|[L|L]]; [exact L|subst; congruence|].
        exfalso. exact (Hno _ _ L Hi). }
      eapply t_trans; [apply t_step; eapply hb_join; [|exact Hi | exact Hjoin]; assumption|].
      apply t_step. eapply hb_po; [exact Hf | exact Hjoin | exact Hj].
Qed.

(* every variable is guarded in one of the ways => the whole trace is race free *)
Theorem race_free : forall tr (g : var -> lockid),
  wf_trace tr ->
  (forall x, guarded_by_mutex tr x (g x) \/ guarded_by_rw tr x (g x)) ->
  forall i j, conflicting tr i j -> hb tr i j.
Proof.
  intros tr g WF G i j [x C]. destruct (G x).
  - eapply mutex_discipline_sound; eassumption.
  - eapply rwmutex_discipline_sound; eassumption.
Qed.

(* the same with all the guard kinds of Checker.v *)
Definition guarded (tr : trace) (x : var) : Prop :=
  (exists m, guarded_by_mutex tr x m) \/
  (exists rw m, guarded_by_rw2 tr x rw m) \/
  (exists m owner, confined_or_locked tr x m owner).

Theorem race_free_all_kinds : forall tr,
  wf_trace tr -> (forall x, guarded tr x) ->
  forall i j, conflicting tr i j -> hb tr i j.
Proof.
  intros tr WF G i j [x C]. destruct (G x) as [(m & H)|[(rw & m & H)|(m & owner & H)]].
  - eapply mutex_discipline_sound; eassumption.
  - eapply rw2_discipline_sound; eassumption.
  - eapply fork_join_confinement_sound; eassumption.
Qed.

(* "no data race": no two conflicting accesses are unordered *)
Definition race (tr : trace) : Prop := exists i j, conflicting tr i j /\ ~ hb tr i j.

Corollary no_race_all_kinds : forall tr, wf_trace tr -> (forall x, guarded tr x) -> ~ race tr.
Proof.
  intros tr WF G (i & j & C & N). apply N. eapply race_free_all_kinds; eassumption.
Qed.

(* ------------------------------------------------------------------------------------------ *)
(** * Boolean checkers (for the examples) *)

Definition op_eqb (a b : op) : bool :=
  match a, b with
  | Acq m, Acq n | Rel m, Rel n | RAcq m, RAcq n | RRel m, RRel n
  | Rd m, Rd n | Wr m, Wr n | Fork m, Fork n | Join m, Join n => m =? n
  | _, _ => false
  end.

Lemma op_eqb_eq : forall a b, op_eqb a b = true <-> a = b.
Proof.
  intros a b; split.
  - destruct a, b; simpl; intro H; try discriminate; apply Nat.eqb_eq in H; congruence.
  - intros <-. destruct a; simpl; apply Nat.eqb_refl.
Qed.

Definition tid_of (tr : trace) (j : nat) : option tid := option_map fst (nth_error tr j).

Definition not_thread (tr : trace) (c : tid) (j : nat) : bool :=
  match nth_error tr j with Some (t, _) => negb (t =? c) | None => true end.

Definition is_fork_of (tr : trace) (c : tid) (k : nat) : bool :=
  match nth_error tr k with Some (_, o) => op_eqb o (Fork c) | None => false end.

Definition mem_nat (t : nat) (l : list nat) : bool := existsb (Nat.eqb t) l.

Definition holds_wb (s : lstate) (t : tid) (m : lockid) : bool :=
  match writer s m with Some u => u =? t | None => false end.
Definition holds_rb (s : lstate) (t : tid) (m : lockid) : bool := mem_nat t (readers s m).

Definition op_okb (tr : trace) (i : nat) (t : tid) (o : op) : bool :=
  let s := state_at tr i in
  match o with
  | Acq m  => match writer s m, readers s m with None, [] => true | _, _ => false end
  | RAcq m => match writer s m with None => true | _ => false end
  | Rel m  => holds_wb s t m
  | RRel m => holds_rb s t m
  | Rd _ | Wr _ => true
  | Fork c => negb (c =? t) && forallb (not_thread tr c) (seq 0 i)
  | Join c => forallb (not_thread tr c) (seq (S i) (length tr - S i)) &&
              existsb (is_fork_of tr c) (seq 0 i)
  end.

Definition wfb (tr : trace) : bool :=
  forallb (fun i => match nth_error tr i with Some (t, o) => op_okb tr i t o | None => true end)
          (seq 0 (length tr)).

Lemma holds_wb_ok : forall tr i t m, holds_wb (state_at tr i) t m = true -> holds_w tr i t m.
Proof.
  unfold holds_wb, holds_w. intros tr i t m H. destruct (writer (state_at tr i) m); [|discriminate].
  apply Nat.eqb_eq in H. congruence.
Qed.

Lemma mem_nat_In : forall t l, mem_nat t l = true -> In t l.
Proof.
  unfold mem_nat. intros t l H. apply existsb_exists in H. destruct H as (u & Hu & E).
  apply Nat.eqb_eq in E. subst. exact Hu.
Qed.

Lemma holds_rb_ok : forall tr i t m, holds_rb (state_at tr i) t m = true -> holds_r tr i t m.
Proof. unfold holds_rb, holds_r. intros. apply mem_nat_In. assumption. Qed.

Lemma nth_error_lt : forall (tr : trace) i e, nth_error tr i = Some e -> i < length tr.
Proof. intros tr i e H. apply nth_error_Some. congruence. Qed.

Lemma wfb_sound : forall tr, wfb tr = true -> wf_trace tr.
Proof.
  intros tr H i t o E. unfold wfb in H. rewrite forallb_forall in H.
  pose proof (nth_error_lt _ _ _ E) as Hlt.
  specialize (H i). rewrite E in H. assert (Hin : In i (seq 0 (length tr))) by (apply in_seq; lia).
  specialize (H Hin). unfold op_okb in H. unfold op_ok.
  destruct o; simpl in *; auto.
  - destruct (writer (state_at tr i) m); [discriminate|].
    destruct (readers (state_at tr i) m); [auto | discriminate].
  - apply holds_wb_ok; exact H.
  - destruct (writer (state_at tr i) m); [discriminate | reflexivity].
  - apply holds_rb_ok; exact H.
  - apply andb_true_iff in H. destruct H as [H1 H2]. split.
    + apply negb_true_iff, Nat.eqb_neq in H1. exact H1.
    + intros j o' Hj Ej. rewrite forallb_forall in H2.
      assert (Hinj : In j (seq 0 i)) by (apply in_seq; lia).
      specialize (H2 j Hinj). unfold not_thread in H2. rewrite Ej in H2.
      rewrite Nat.eqb_refl in H2. discriminate.
  - apply andb_true_iff in H. destruct H as [H1 H2]. split.
    + intros j o' Hj Ej. rewrite forallb_forall in H1.
      pose proof (nth_error_lt _ _ _ Ej) as Hltj.
      assert (Hinj : In j (seq (S i) (length tr - S i))) by (apply in_seq; lia).
      specialize (H1 j Hinj). unfold not_thread in H1. rewrite Ej in H1.
      rewrite Nat.eqb_refl in H1. discriminate.
    + apply existsb_exists in H2. destruct H2 as (k & Hk & Hf). apply in_seq in Hk.
      unfold is_fork_of in Hf. destruct (nth_error tr k) as [[t' o']|] eqn:Ek; [|discriminate].
      apply op_eqb_eq in Hf. subst o'. exists k, t'. split; [lia | exact Ek].
Qed.

(* discipline checkers *)
Definition acc_check (tr : trace) (x : var) (f : nat -> tid -> bool -> bool) : bool :=
  forallb (fun i => match nth_error tr i with
                    | Some (t, Rd y) => if y =? x then f i t false else true
                    | Some (t, Wr y) => if y =? x then f i t true else true
                    | _ => true
                    end) (seq 0 (length tr)).

Lemma acc_check_rd : forall tr x f i t,
  acc_check tr x f = true -> nth_error tr i = Some (t, Rd x) -> f i t false = true.
Proof.
  intros tr x f i t H E. unfold acc_check in H. rewrite forallb_forall in H.
  pose proof (nth_error_lt _ _ _ E). specialize (H i). rewrite E, Nat.eqb_refl in H.
  apply H. apply in_seq. lia.
Qed.

Lemma acc_check_wr : forall tr x f i t,
  acc_check tr x f = true -> nth_error tr i = Some (t, Wr x) -> f i t true = true.
Proof.
  intros tr x f i t H E. unfold acc_check in H. rewrite forallb_forall in H.
  pose proof (nth_error_lt _ _ _ E). specialize (H i). rewrite E, Nat.eqb_refl in H.
  apply H. apply in_seq. lia.
Qed.

Definition guarded_by_mutexb (tr : trace) (x : var) (m : lockid) : bool :=
  acc_check tr x (fun i t _ => holds_wb (state_at tr i) t m).

Definition guarded_by_rwb (tr : trace) (x : var) (m : lockid) : bool :=
  acc_check tr x (fun i t w =>
    if w then holds_wb (state_at tr i) t m
    else holds_wb (state_at tr i) t m || holds_rb (state_at tr i) t m).

Lemma guarded_by_mutexb_sound : forall tr x m,
  guarded_by_mutexb tr x m = true -> guarded_by_mutex tr x m.
Proof.
  intros tr x m H i t [E|E]; apply holds_wb_ok.
  - exact (acc_check_rd _ _ _ _ _ H E).
  - exact (acc_check_wr _ _ _ _ _ H E).
Qed.

Lemma guarded_by_rwb_sound : forall tr x m,
  guarded_by_rwb tr x m = true -> guarded_by_rw tr x m.
Proof.
  intros tr x m H. split; intros i t E.
  - apply holds_wb_ok. exact (acc_check_wr _ _ _ _ _ H E).
  - pose proof (acc_check_rd _ _ _ _ _ H E) as H'. simpl in H'.
    apply orb_true_iff in H'. destruct H'; [left; apply holds_wb_ok | right; apply holds_rb_ok]; assumption.
Qed.

Definition is_op_of (tr : trace) (t : tid) (o : op) (f : nat) : bool :=
  match nth_error tr f with Some (u, o') => (u =? t) && op_eqb o' o | None => false end.

Lemma is_op_of_ok : forall tr t o f, is_op_of tr t o f = true -> nth_error tr f = Some (t, o).
Proof.
  unfold is_op_of. intros tr t o f H. destruct (nth_error tr f) as [[u o']|]; [|discriminate].
  apply andb_true_iff in H. destruct H as [H1 H2].
  apply Nat.eqb_eq in H1. apply op_eqb_eq in H2. subst. reflexivity.
Qed.

Definition before_forkb (tr : trace) (i : nat) (owner c : tid) : bool :=
  existsb (is_op_of tr owner (Fork c)) (seq (S i) (length tr - S i)).
Definition after_joinb (tr : trace) (i : nat) (owner c : tid) : bool :=
  existsb (is_op_of tr owner (Join c)) (seq 0 i).

(* p holds of every thread other than owner that accesses x *)
Definition all_others (tr : trace) (x : var) (owner : tid) (p : tid -> bool) : bool :=
  acc_check tr x (fun _ c _ => (c =? owner) || p c).

Lemma all_others_ok : forall tr x owner p j c,
  all_others tr x owner p = true -> c <> owner -> accesses tr j c x -> p c = true.
Proof.
  intros tr x owner p j c H Hc [A|A].
  - pose proof (acc_check_rd _ _ _ _ _ H A) as H'. simpl in H'.
    apply orb_true_iff in H'. destruct H' as [H'|H']; [apply Nat.eqb_eq in H'; contradiction | exact H'].
  - pose proof (acc_check_wr _ _ _ _ _ H A) as H'. simpl in H'.
    apply orb_true_iff in H'. destruct H' as [H'|H']; [apply Nat.eqb_eq in H'; contradiction | exact H'].
Qed.

Definition confined_or_lockedb (tr : trace) (x : var) (m : lockid) (owner : tid) : bool :=
  acc_check tr x (fun i t _ =>
    holds_wb (state_at tr i) t m ||
    ((t =? owner) && (all_others tr x owner (before_forkb tr i owner) ||
                      all_others tr x owner (after_joinb tr i owner)))).

Lemma confined_or_lockedb_sound : forall tr x m owner,
  confined_or_lockedb tr x m owner = true -> confined_or_locked tr x m owner.
Proof.
  intros tr x m owner H i t A.
  assert (H' : holds_wb (state_at tr i) t m ||
               ((t =? owner) && (all_others tr x owner (before_forkb tr i owner) ||
                                 all_others tr x owner (after_joinb tr i owner))) = true).
  { destruct A as [A|A].
    - exact (acc_check_rd _ _ _ _ _ H A).
    - exact (acc_check_wr _ _ _ _ _ H A). }
  apply orb_true_iff in H'. destruct H' as [H'|H']; [left; apply holds_wb_ok; exact H'|].
  apply andb_true_iff in H'. destruct H' as [Ht Hc]. apply Nat.eqb_eq in Ht.
  right. split; [exact Ht|]. apply orb_true_iff in Hc. destruct Hc as [Hc|Hc]; [left | right];
    intros j c Hne Aj; pose proof (all_others_ok _ _ _ _ _ _ Hc Hne Aj) as Hp.
  - unfold before_forkb in Hp. apply existsb_exists in Hp. destruct Hp as (f & Hf & Hop).
    apply in_seq in Hf. exists f. split; [lia | apply is_op_of_ok; exact Hop].
  - unfold after_joinb in Hp. apply existsb_exists in Hp. destruct Hp as (f & Hf & Hop).
    apply in_seq in Hf. exists f. split; [lia | apply is_op_of_ok; exact Hop].
Qed.

(* refuting hb: a set of positions closed under hb1-successors that contains i but not j *)
Definition hb1b (tr : trace) (i j : nat) : bool :=
  (i <? j) &&
  match nth_error tr i, nth_error tr j with
  | Some (t, a), Some (t', b) =>
      (t =? t')
      || match a, b with
         | Rel m, Acq n | Rel m, RAcq n | RRel m, Acq n => m =? n
         | _, _ => false
         end
      || match a with Fork c => c =? t' | _ => false end
      || match b with Join c => c =? t | _ => false end
  | _, _ => false
  end.

Lemma hb1b_complete : forall tr i j, hb1 tr i j -> hb1b tr i j = true.
Proof.
  intros tr i j H. unfold hb1b.
  destruct H as [t a b L E1 E2|t t' m L E1 E2|t t' m L E1 E2|t t' m L E1 E2|t c b L E1 E2|c a t L E1 E2];
    rewrite E1, E2; apply Nat.ltb_lt in L; rewrite L; simpl;
    rewrite ?Nat.eqb_refl, ?orb_true_r; reflexivity.
Qed.

Definition closedb (tr : trace) (S : list nat) : bool :=
  forallb (fun a => forallb (fun b => implb (hb1b tr a b) (mem_nat b S)) (seq 0 (length tr))) S.

Lemma hb_refute : forall tr S i j,
  closedb tr S = true -> mem_nat i S = true -> mem_nat j S = false -> ~ hb tr i j.
Proof.
  intros tr S i j HC Hi Hj H.
  assert (Hall : mem_nat j S = true); [|congruence].
  clear Hj. induction H as [i j H|i k j _ IH1 _ IH2]; [|auto].
  unfold closedb in HC. rewrite forallb_forall in HC.
  specialize (HC i (mem_nat_In _ _ Hi)). rewrite forallb_forall in HC.
  assert (Hlt : j < length tr).
  { destruct H; eapply nth_error_lt; eassumption. }
  assert (Hin : In j (seq 0 (length tr))) by (apply in_seq; lia).
  specialize (HC j Hin). rewrite (hb1b_complete _ _ _ H) in HC. exact HC.
Qed.

(* ------------------------------------------------------------------------------------------ *)
(** * Examples *)

(* a lock hand-over between a parent and its child *)
Definition ex_mutex : trace :=
  [ (0, Fork 1); (0, Acq 5); (0, Wr 9); (0, Rel 5);
    (1, Acq 5); (1, Rd 9); (1, Rel 5); (0, Join 1) ].

Lemma ex_mutex_ok :
  wf_trace ex_mutex /\ guarded_by_mutex ex_mutex 9 5 /\ conflicting_on ex_mutex 9 2 5 /\ hb ex_mutex 2 5.
Proof.
  assert (WF : wf_trace ex_mutex) by (apply wfb_sound; vm_compute; reflexivity).
  assert (G : guarded_by_mutex ex_mutex 9 5) by (apply guarded_by_mutexb_sound; vm_compute; reflexivity).
  assert (C : conflicting_on ex_mutex 9 2 5).
  { split; [lia|]. exists 0, 1, (Wr 9), (Rd 9). unfold is_acc. simpl. repeat split; auto. }
  split; [exact WF|]. split; [exact G|]. split; [exact C|].
  eapply mutex_discipline_sound; eassumption.
Qed.

(* two concurrent readers under RLock, then a writer under Lock *)
Definition ex_rw : trace :=
  [ (0, Fork 1); (0, Fork 2);
    (1, RAcq 5); (2, RAcq 5); (1, Rd 9); (2, Rd 9); (1, RRel 5); (2, RRel 5);
    (0, Acq 5); (0, Wr 9); (0, Rel 5); (0, Join 1); (0, Join 2) ].

Lemma ex_rw_ok :
  wf_trace ex_rw /\ guarded_by_rw ex_rw 9 5 /\
  (holds_r ex_rw 5 1 5 /\ holds_r ex_rw 5 2 5) /\         (* both readers inside at once *)
  ~ guarded_by_mutex ex_rw 9 5 /\                          (* ... so this is not the plain mutex discipline *)
  conflicting_on ex_rw 9 4 9 /\ conflicting_on ex_rw 9 5 9 /\ hb ex_rw 4 9 /\ hb ex_rw 5 9 /\
  ~ hb ex_rw 4 5.                                          (* the two reads are unordered, and do not conflict *)
Proof.
  assert (WF : wf_trace ex_rw) by (apply wfb_sound; vm_compute; reflexivity).
  assert (G : guarded_by_rw ex_rw 9 5) by (apply guarded_by_rwb_sound; vm_compute; reflexivity).
  assert (C1 : conflicting_on ex_rw 9 4 9).
  { split; [lia|]. exists 1, 0, (Rd 9), (Wr 9). unfold is_acc. simpl. repeat split; auto. }
  assert (C2 : conflicting_on ex_rw 9 5 9).
  { split; [lia|]. exists 2, 0, (Rd 9), (Wr 9). unfold is_acc. simpl. repeat split; auto. }
  split; [exact WF|]. split; [exact G|].
  split; [split; vm_compute; auto|].
  split.
  { intro M. specialize (M 4 1 (or_introl eq_refl)). vm_compute in M. discriminate. }
  split; [exact C1|]. split; [exact C2|].
  split; [eapply rwmutex_discipline_sound; eassumption|].
  split; [eapply rwmutex_discipline_sound; eassumption|].
  apply hb_refute with (S := [4; 6; 8; 9; 10; 11; 12]); vm_compute; reflexivity.
Qed.

(* negative: thread 1 writes without the lock; the two writes are unordered *)
Definition ex_racy : trace :=
  [ (0, Fork 1); (0, Acq 5); (0, Wr 9); (0, Rel 5); (1, Wr 9); (0, Join 1) ].

Lemma ex_racy_ok :
  wf_trace ex_racy /\ conflicting ex_racy 2 4 /\ ~ hb ex_racy 2 4 /\ race ex_racy /\
  ~ guarded_by_mutex ex_racy 9 5.
Proof.
  assert (WF : wf_trace ex_racy) by (apply wfb_sound; vm_compute; reflexivity).
  assert (C : conflicting ex_racy 2 4).
  { exists 9. split; [lia|]. exists 0, 1, (Wr 9), (Wr 9). unfold is_acc. simpl. repeat split; auto. }
  assert (N : ~ hb ex_racy 2 4) by (apply hb_refute with (S := [2; 3; 5]); vm_compute; reflexivity).
  split; [exact WF|]. split; [exact C|]. split; [exact N|].
  split; [exists 2, 4; split; assumption|].
  intro M. specialize (M 4 1 (or_intror eq_refl)). vm_compute in M. discriminate.
Qed.

(* the GLockInGoroutines pattern: the caller initialises x, forks two workers that update x under
   the lock, waits for both, and reads x without the lock *)
Definition ex_confined : trace :=
  [ (0, Wr 9); (0, Fork 1); (0, Fork 2);
    (1, Acq 5); (1, Wr 9); (1, Rel 5); (2, Acq 5); (2, Wr 9); (2, Rel 5);
    (0, Join 1); (0, Join 2); (0, Rd 9) ].

Lemma ex_confined_ok :
  wf_trace ex_confined /\ confined_or_locked ex_confined 9 5 0 /\
  ~ guarded_by_mutex ex_confined 9 5 /\
  hb ex_confined 0 4 /\ hb ex_confined 4 7 /\ hb ex_confined 7 11.
Proof.
  assert (WF : wf_trace ex_confined) by (apply wfb_sound; vm_compute; reflexivity).
  assert (G : confined_or_locked ex_confined 9 5 0)
    by (apply confined_or_lockedb_sound; vm_compute; reflexivity).
  assert (C : forall i j t t' a b, i < j -> nth_error ex_confined i = Some (t, a) ->
              nth_error ex_confined j = Some (t', b) -> t <> t' -> is_acc a 9 -> is_acc b 9 ->
              (a = Wr 9 \/ b = Wr 9) -> hb ex_confined i j).
  { intros. eapply fork_join_confinement_sound; [exact WF | exact G |].
    split; [assumption|]. exists t, t', a, b. repeat split; assumption. }
  split; [exact WF|]. split; [exact G|].
  split.
  { intro M. specialize (M 0 0 (or_intror eq_refl)). vm_compute in M. discriminate. }
  split; [|split].
  - apply (C 0 4 0 1 (Wr 9) (Wr 9));
      [lia | reflexivity | reflexivity | discriminate | right; reflexivity | right; reflexivity | left; reflexivity].
  - apply (C 4 7 1 2 (Wr 9) (Wr 9));
      [lia | reflexivity | reflexivity | discriminate | right; reflexivity | right; reflexivity | left; reflexivity].
  - apply (C 7 11 2 0 (Wr 9) (Rd 9));
      [lia | reflexivity | reflexivity | discriminate | right; reflexivity | left; reflexivity | left; reflexivity].
Qed.

(* well-formedness does enforce mutual exclusion: these interleavings are not executions *)
Lemma ex_not_wf :
  ~ wf_trace [ (0, Acq 5); (1, Acq 5) ] /\ ~ wf_trace [ (0, RAcq 5); (1, Acq 5) ] /\
  ~ wf_trace [ (0, Acq 5); (1, RAcq 5) ] /\ ~ wf_trace [ (0, Acq 5); (1, Rel 5) ] /\
  ~ wf_trace [ (1, Rd 9); (0, Fork 1) ] /\ ~ wf_trace [ (0, Fork 1); (0, Join 1); (1, Rd 9) ].
Proof.
  repeat split; intro WF.
  - specialize (WF 1 1 _ eq_refl). vm_compute in WF. destruct WF; discriminate.
  - specialize (WF 1 1 _ eq_refl). vm_compute in WF. destruct WF; discriminate.
  - specialize (WF 1 1 _ eq_refl). vm_compute in WF. discriminate.
  - specialize (WF 1 1 _ eq_refl). vm_compute in WF. discriminate.
  - specialize (WF 1 0 _ eq_refl). destruct WF as [_ WF]. apply (WF 0 (Rd 9)); [lia | reflexivity].
  - specialize (WF 1 0 _ eq_refl). destruct WF as [WF _]. apply (WF 2 (Rd 9)); [lia | reflexivity].
Qed.
