(* obligations/GenInterpOk.v — per-run obligation of T4: every structural premise of the interpreter model holds in
   internal/base/*.go as it is NOW (gen/Gen_Interp.v is regenerated on every run). *)
From Coq Require Import String List Bool.
From GV Require Import Lang.InterpShape.
From GVgen Require Import Gen_Interp.

Lemma interp_facts_hold : missing gen_interp_facts all_fact_names = nil.
Proof. reflexivity. Qed.
