(* obligations/GenLocksOk.v — per-run obligation of C19 (T2): every access to gengine's own
   shared state, as regenerated from the current source, follows the lock discipline of
   Race/Checker.v; together with Race/HB.v (discipline => no two conflicting accesses are
   unordered by happens-before, for every interleaving) this is the data-race freedom claim. *)
From Coq Require Import String List Bool.
From GV Require Import Race.Checker.
From GVgen Require Import Gen_Locks.

Lemma gen_accesses_follow_discipline : race_ok gen_accesses = true.
Proof. vm_compute. reflexivity. Qed.

Lemma gen_callsites_hold_their_locks : forallb callsite_ok gen_callsites = true.
Proof. vm_compute. reflexivity. Qed.
