(* obligations/GenWaitOk.v — per-run obligation of C17 (T2): the functions of engine/gengine_pool.go, as
   regenerated from the current source, follow the waiting discipline that Pool/Progress.v's transition
   system encodes: whoever may wait for an instance or for the rules holds no mutex of the pool, and the
   mutexes are acquired in one global order, nothing inside a read section of stateLock. *)
From Coq Require Import String List Bool.
From GV Require Import Race.Checker.
From GVgen Require Import Gen_Locks.

Lemma gen_waiters_hold_nothing : wait_ok gen_poolcalls = true.
Proof. vm_compute. reflexivity. Qed.

Lemma gen_locks_are_ordered : order_ok gen_poolcalls gen_poolacqs = true.
Proof. vm_compute. reflexivity. Qed.

Lemma gen_wait_table_is_about_the_pool : wait_table_nonempty gen_poolcalls = true.
Proof. vm_compute. reflexivity. Qed.

(* no function of the five files returns with a mutex it took and registered no deferred Unlock for: a leaked mutex makes the
   next acquisition wait for ever (Pool/Progress.v's sections always end) *)
Lemma gen_no_mutex_is_leaked : gen_lockleaks = nil.
Proof. reflexivity. Qed.
