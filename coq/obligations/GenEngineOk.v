(* obligations/GenEngineOk.v — per-run proof obligation of the engine family (T1).
   gen/Gen_Engine.v is regenerated from /repo/engine/gengine.go on every run; this file
   re-checks, against what the code says NOW, that every generated skeleton is the one
   the theorems of Engine/Sound.v are about, and re-states the soundness theorem for the
   generated model.  Compiled by the checks with coqc (kept out of _CoqProject so that a
   broken engine skeleton does not break the build of unrelated properties). *)
From Coq Require Import String List ZArith Bool.
From GV Require Import Engine.IR Engine.Hand Engine.Spec Engine.Sound.
From GVgen Require Import Gen_Engine.

Lemma gen_is_hand : forall e, gen e = hand e.
Proof. intros []; reflexivity. Qed.

(* g.addResult is one locked store returnResult[name] = value, GetRulesResultMap hands back that map, and every
   call site passes the name of the rule just executed together with the value it returned (the translator
   classifies any other call as IUnknown, which gen_is_hand rejects) *)
Lemma result_helpers_ok : gen_result_helpers_ok = true.
Proof. reflexivity. Qed.

Theorem gen_sound : forall e c, run_prog (gen e) c = spec_outcome e c.
Proof. intros e c. rewrite gen_is_hand. apply hand_sound. Qed.
Print Assumptions gen_sound.
