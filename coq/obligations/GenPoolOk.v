(* obligations/GenPoolOk.v — per-run obligations of the pool family (T3): the shapes
   regenerated from /repo/engine/gengine_pool.go are the ones Pool/Model.v abstracts. *)
From Coq Require Import String List Bool.
From GV Require Import Pool.Shape.
From GVgen Require Import Gen_Pool.

Lemma gen_wrappers_ok : wrappers_ok gen_wrappers = true.
Proof. vm_compute. reflexivity. Qed.

Lemma gen_updates_ok : updates_ok gen_prepare_snapshots gen_snapshot_locked_one_read gen_updates = true.
Proof. vm_compute. reflexivity. Qed.
