(* obligations/GenCompileOk.v — per-run obligation of C10: every compile entry point, as
   regenerated from the source, inspects all three diagnostics, rejects rule-less texts and
   installs nothing before; hence (Compile/Model.v) they agree on every text and are all-or-nothing. *)
From Coq Require Import String List Bool.
From GV Require Import Compile.Model.
From GVgen Require Import Gen_Compile.

Lemma gen_eps_wf : forallb ep_wf gen_eps = true.
Proof. vm_compute. reflexivity. Qed.

Theorem gen_entry_points_agree : forall e1 e2 d, In e1 gen_eps -> In e2 gen_eps -> accepts e1 d = accepts e2 d.
Proof.
  intros e1 e2 d H1 H2. apply agree; [exact (proj1 (forallb_forall _ _) gen_eps_wf e1 H1) | exact (proj1 (forallb_forall _ _) gen_eps_wf e2 H2)].
Qed.
